import sys; sys.path.insert(0,'/repo/src')
import numpy as np, gstools as gs
pos = np.array([[0.,0.,1.,0.],[0.,0.,0.,2.]])   # points 0 and 1 coincide
f = np.array([1.0, 3.0, 2.0, 0.5])
edges=[0.,1.5,3.]
both = gs.vario_estimate(pos, f, edges, direction=np.eye(2), angles_tol=np.pi/6, return_counts=True)
only_y = gs.vario_estimate(pos, f, edges, direction=[[0.,1.]], angles_tol=np.pi/6, return_counts=True)
print("both dirs :", both[1], both[2])
print("only y    :", only_y[1], only_y[2])
