"""Simulated OpenMP runtime: cooperative threads, seeded scheduler, vector-clock race detector.

Threads are Python generators produced by ``pyx2py``; every shared element access yields
``(kind, uid, flat)`` *before* it is performed, so the scheduler decides every interleaving.
"""
import math
import types

import numpy as np

POISON = float("nan")


class Race(Exception):
    def __init__(self, what, cell, t1, t2):
        super().__init__("%s race on %s between thread %s and %s" % (what, cell, t1, t2))
        self.what, self.cell, self.t1, self.t2 = what, cell, t1, t2


class Deadlock(Exception):
    pass


class UninitialisedPrivate(Exception):
    pass


class MV:
    """Typed memory view: flat Python list + offset/strides (so loads are plain floats)."""
    __slots__ = ("buf", "off", "shape", "strides", "name", "uid", "kind")
    _next = [0]

    def __init__(self, buf, off, shape, strides, name, uid, kind="f"):
        self.buf, self.off, self.shape, self.strides = buf, off, tuple(shape), tuple(strides)
        self.name, self.uid, self.kind = name, uid, kind

    @classmethod
    def from_array(cls, arr, name):
        arr = np.asarray(arr)
        kind = "i" if arr.dtype.kind in "iub" else "f"
        a = np.ascontiguousarray(arr, dtype=np.int64 if kind == "i" else np.double)
        strides = []
        acc = 1
        for n in reversed(a.shape):
            strides.append(acc)
            acc *= n
        cls._next[0] += 1
        return cls(a.ravel().tolist(), 0, a.shape, list(reversed(strides)), name, cls._next[0],
                   kind)

    def flat(self, idx):
        f = self.off
        for i, s, n in zip(idx, self.strides, self.shape):
            if not 0 <= i < n:  # boundscheck=False in the real build: this would be UB
                raise IndexError("index %r out of bounds for %s%r" % (idx, self.name, self.shape))
            f += i * s
        return f

    def __getitem__(self, idx):  # only used for slicing (sub views)
        if not isinstance(idx, tuple):
            idx = (idx,)
        off, shape, strides = self.off, [], []
        for i, (s, n) in zip(idx, zip(self.strides, self.shape)):
            if isinstance(i, slice):
                if i != slice(None):
                    raise NotImplementedError("partial slices")
                shape.append(n)
                strides.append(s)
            else:
                off += i * s
        return MV(self.buf, off, shape, strides, self.name, self.uid, self.kind)

    def __len__(self):
        return self.shape[0]

    def to_numpy(self):
        out = np.empty(self.shape, dtype=np.int64 if self.kind == "i" else np.double)
        it = np.ndindex(*self.shape) if self.shape else [()]
        for idx in it:
            out[idx] = self.buf[self.off + sum(i * s for i, s in zip(idx, self.strides))]
        return out


class NPShim:
    """The few numpy functions the kernels call, returning MVs."""
    int64 = "int64"

    @staticmethod
    def _shape(shape):
        return (shape,) if isinstance(shape, int) else tuple(shape)

    def zeros(self, shape, dtype=float):
        shape = self._shape(shape)
        if dtype in ("int64", int, np.int64):
            return MV.from_array(np.zeros(shape, dtype=np.int64), "zeros")
        return MV.from_array(np.zeros(shape), "zeros")

    def empty(self, shape, dtype=float):
        shape = self._shape(shape)
        mv = MV.from_array(np.zeros(shape), "empty")
        mv.buf[:] = [POISON] * len(mv.buf)  # uninitialised memory
        return mv

    @staticmethod
    def asarray(x):
        return x


def _L(a, idx):
    f = a.flat(idx)
    yield (0, a.uid, f)
    return a.buf[f]


def _S(a, idx, val):
    f = a.flat(idx)
    yield (1, a.uid, f)
    a.buf[f] = val


def _CALL(fn, *args, **kw):
    r = fn(*args, **kw)
    if isinstance(r, types.GeneratorType):
        return (yield from r)
    return r
    yield  # pragma: no cover


class P:
    """Thread private namespace; reading an unassigned private is an uninitialised read."""

    def __init__(self, tid):
        object.__setattr__(self, "tid", tid)

    def __getattr__(self, name):
        raise UninitialisedPrivate(name)


class Detector:
    """Vector clocks with fork / join / barrier happens-before; per cell last write + reads."""

    def __init__(self):
        self.clock = {"m": {"m": 1}}
        self.w = {}
        self.r = {}
        self.races = 0

    def fork(self, parent, children):
        pc = self.clock[parent]
        for c in children:
            k = dict(pc)
            k[c] = 1
            self.clock[c] = k
        pc[parent] += 1

    def join(self, parent, children):
        pc = self.clock[parent]
        for c in children:
            for k, v in self.clock[c].items():
                if pc.get(k, 0) < v:
                    pc[k] = v
            del self.clock[c]
        pc[parent] += 1

    def barrier(self, tids):
        merged = {}
        for t in tids:
            for k, v in self.clock[t].items():
                if merged.get(k, 0) < v:
                    merged[k] = v
        for t in tids:
            c = dict(merged)
            c[t] = c.get(t, 0) + 1
            self.clock[t] = c

    def access(self, tid, kind, cell):
        c = self.clock[tid]
        w = self.w.get(cell)
        if w is not None and w[0] != tid and c.get(w[0], 0) < w[1]:
            raise Race("write-%s" % ("write" if kind else "read"), cell, w[0], tid)
        if kind:
            rs = self.r.get(cell)
            if rs:
                for t, e in rs.items():
                    if t != tid and c.get(t, 0) < e:
                        raise Race("read-write", cell, t, tid)
            self.w[cell] = (tid, c[tid])
            self.r[cell] = {}
        else:
            self.r.setdefault(cell, {})[tid] = c[tid]


class RT:
    """One instance per simulated kernel execution."""

    def __init__(self, rng, team_default, sched_kind, policy, nprocs, trace_limit=400):
        self.rng = rng
        self.team_default = team_default
        self.sched_kind = sched_kind      # static | cyclic | dynamic | guided
        self.policy = policy              # random | bursty | roundrobin | reverse
        self.nprocs = nprocs
        self.det = Detector()
        self.steps = 0
        self.trace = []
        self.trace_limit = trace_limit
        self.interleave_hash = 0
        self.barriers = 0
        self.regions = 0
        self.max_team = 1
        self._ws = {}

    # ---- helpers
    def _team(self, n):
        n = self.team_default if n is None else int(n)
        return max(1, n)

    def _assign(self, iters, T, kind=None, chunk=None):
        """Iteration -> thread map for the statically decided kinds; None for dynamic ones."""
        n = len(iters)
        kind = kind or self.sched_kind
        if kind == "static" and chunk:
            out = [[] for _ in range(T)]
            for b, start in enumerate(range(0, n, int(chunk))):
                out[b % T].extend(iters[start:start + int(chunk)])
            return out
        if kind == "static":
            per, rem = divmod(n, T)
            out, k = [], 0
            for t in range(T):
                cnt = per + (1 if t < rem else 0)
                out.append(iters[k:k + cnt])
                k += cnt
            return out
        if kind == "cyclic":
            c = self.rng.choice([1, 1, 2, 3])
            out = [[] for _ in range(T)]
            for b, start in enumerate(range(0, n, c)):
                out[b % T].extend(iters[start:start + c])
            return out
        return None

    def _note(self, tid):
        self.steps += 1
        self.interleave_hash = (self.interleave_hash * 1000003 + hash(tid) + 7) & 0xFFFFFFFFFFFF
        if len(self.trace) < self.trace_limit:
            self.trace.append(tid)

    def _run_threads(self, gens, tids):
        """Run generator threads to completion under the seeded scheduler."""
        rng = self.rng
        alive = dict(zip(tids, gens))
        waiting = {}
        burst_t, burst_n = None, 0
        rr = 0
        while alive:
            runnable = [t for t in tids if t in alive and t not in waiting]
            if not runnable:
                # all alive threads wait at a barrier
                keys = set(waiting.values())
                if len(keys) != 1 or len(waiting) != len(alive):
                    raise Deadlock("threads wait at different barriers: %r" % (waiting,))
                self.det.barrier(list(waiting))
                self.barriers += 1
                waiting = {}
                continue
            if self.policy == "random":
                t = rng.choice(runnable)
            elif self.policy == "bursty":
                if burst_t in runnable and burst_n > 0:
                    t = burst_t
                    burst_n -= 1
                else:
                    t = rng.choice(runnable)
                    burst_t, burst_n = t, rng.randint(1, 12)
            elif self.policy == "roundrobin":
                rr += 1
                t = runnable[rr % len(runnable)]
            else:  # reverse: highest thread id first, one step lookahead randomness
                t = runnable[-1] if rng.random() < 0.85 else rng.choice(runnable)
            try:
                ev = alive[t].send(None)
            except StopIteration:
                del alive[t]
                # a finished thread no longer takes part in barriers of the team
                if waiting and len(waiting) == len(alive) and alive:
                    pass
                continue
            if ev[0] == 2:  # barrier
                waiting[t] = ev[1]
                # threads that already left the region cannot arrive any more
                if len(waiting) == len(alive):
                    keys = set(waiting.values())
                    if len(keys) != 1:
                        raise Deadlock("threads wait at different barriers: %r" % (waiting,))
                    self.det.barrier(list(waiting))
                    self.barriers += 1
                    waiting = {}
                continue
            self._note(t)
            self.det.access(t, ev[0], (ev[1], ev[2]))

    # ---- constructs called from translated code
    def parallel_for(self, iters, num_threads, body, privates, reductions, site,
                     schedule=None, chunksize=None):
        iters = list(iters)
        if schedule in ("runtime", None):
            schedule = None  # unspecified: every legal schedule may be chosen by the seed
        kind = schedule or self.sched_kind
        T = self._team(num_threads)
        self.max_team = max(self.max_team, T)
        self.regions += 1
        tids = ["%s#%d" % (site.split(":")[-1], t) for t in range(T)]
        ps = [P(t) for t in tids]
        for p in ps:
            for r in reductions:
                setattr(p, r, 0.0)
        static = self._assign(iters, T, kind, chunksize)
        queue = list(iters)
        last = {}
        rng = self.rng

        def thread(k, p):
            if static is not None:
                mine = static[k]
                for it in mine:
                    yield from body(p, it)
                    if iters and it == iters[-1]:
                        last.update({n: p.__dict__[n] for n in privates if n in p.__dict__})
                return
            while queue:
                if kind == "guided":
                    c = max(int(chunksize or 1), len(queue) // (2 * T))
                else:
                    c = int(chunksize) if chunksize else rng.choice([1, 1, 2])
                chunk = queue[:c]
                del queue[:c]
                for it in chunk:
                    yield from body(p, it)
                    if it == iters[-1]:
                        last.update({n: p.__dict__[n] for n in privates if n in p.__dict__})

        self.det.fork("m", tids)
        self._run_threads([thread(k, p) for k, p in enumerate(ps)], tids)
        self.det.join("m", tids)
        red = {}
        for r in reductions:
            tot = 0.0
            for p in ps:  # thread order
                tot = tot + p.__dict__.get(r, 0.0)
            red[r] = tot
        last["__red__"] = red
        return last

    def parallel_region(self, num_threads, region, privates, site):
        T = self._team(num_threads)
        self.max_team = max(self.max_team, T)
        self.regions += 1
        tids = ["%s#%d" % (site.split(":")[-1], t) for t in range(T)]
        ps = []
        for k, t in enumerate(tids):
            p = P(t)
            object.__setattr__(p, "_k", k)
            object.__setattr__(p, "_T", T)
            object.__setattr__(p, "_enc", {})
            ps.append(p)
        self._ws = {}
        self.det.fork("m", tids)
        self._run_threads([region(p) for p in ps], tids)
        self.det.join("m", tids)
        return {}

    def workshare(self, p, site, iters, body, nowait, schedule=None, chunksize=None):
        """Work sharing loop encountered by thread ``p`` inside a parallel region."""
        iters = list(iters)
        enc = p.__dict__["_enc"]
        n = enc.get(site, 0)
        enc[site] = n + 1
        key = (site, n)
        T = p.__dict__["_T"]
        k = p.__dict__["_k"]
        inst = self._ws.get(key)
        if inst is None:
            inst = {"static": self._assign(iters, T, schedule if schedule != "runtime" else None,
                                           chunksize),
                    "queue": list(iters), "iters": iters}
            self._ws[key] = inst
        elif inst["iters"] != iters:
            # threads of one team disagree on the iteration space of the same loop instance
            raise Deadlock("work sharing loop %r encountered with different bounds" % (key,))
        if inst["static"] is not None:
            for it in inst["static"][k]:
                yield from body(p, it)
        else:
            q = inst["queue"]
            while q:
                it = q.pop(0)
                yield from body(p, it)
        if not nowait:
            yield (2, key)


class OpenMPStub:
    def __init__(self, rt):
        self.rt = rt

    def omp_get_num_procs(self):
        return self.rt.nprocs


def drive(gen, rt):
    """Run the master thread (code outside parallel constructs)."""
    try:
        while True:
            ev = gen.send(None)
            if ev[0] == 2:
                raise Deadlock("barrier outside a parallel region")
            rt.steps += 1
            rt.det.access("m", ev[0], (ev[1], ev[2]))
    except StopIteration as e:
        return e.value


def namespace(rt, openmp=True):
    ns = {
        "np": NPShim(), "OPENMP": bool(openmp), "openmp": OpenMPStub(rt), "_RT": rt, "_L": _L,
        "_S": _S, "_CALL": _CALL, "cos": math.cos, "sin": math.sin, "sqrt": math.sqrt,
        "fabs": math.fabs, "acos": math.acos, "atan2": math.atan2, "pow": math.pow,
        "isnan": math.isnan, "M_PI": math.pi,
    }
    return ns
