"""C07 - conditioned fields honour the data and never reuse stale kriging results.

History machine over one long-lived CondSRF wrapping one long-lived Krige, plus a twin that
differs only in seed-object identity and storage names.  Oracles after every generation:
fresh-object refinement, the defining formula K + sqrt(V/var)*U, honouring of the data.
"""
import contextlib
import copy
import io

import numpy as np

import gstools as gs
from gstools import config as gsconfig

from sim.core import Violation, Inapplicable, HarnessError, close, maxdiff, jdump, distinct_int
from . import common as cm
from .srf import read_model, SEEDS

NAME = "condsrf"
PROPERTY = "C07"
TIERS = {"quick": (2500, 90.0), "thorough": (100000, 1800.0)}
CHANGE_KINDS = {"set_pos", "set_condition", "inplace_model", "assign_model", "assign_post",
                "delete_fields", "krige_direct", "reseed"}
OBSERVE_KINDS = {"gen"}
RULE = ("one run = seeded history (3-14 ops) over one long-lived CondSRF + Krige (Simple / "
        "Ordinary / Universal / ExtDrift / Detrended; exact on/off; nugget; cond_err; "
        "pseudo-inverse variants; chunk_size) and its twin: generation (new seeds, layouts, "
        "store / krige_store names, reuse of stored pos), set_pos, set_condition (values, "
        "positions+values, cond_err, ext_drift), in-place model change + documented refresh, "
        "model / mean / trend / normalizer re-assignment + refresh, delete_fields, direct "
        "krige call on the shared Krige, reseeding, ambient faults. distinct = abstract "
        "history signature; non-trivial = a state-changing op or fault precedes a generation")
COMPONENTS = {
    "real": ["gstools.field.cond_srf", "gstools.krige (base, methods, tools)",
             "gstools.field.generator.RandMeth", "gstools.covmodel", "compiled summator and "
             "krigesum kernels", "scipy.linalg pinv/pinvh/inv", "gstools.normalizer", "numpy"],
    "stub": ["user callables (mean / trend / drift functions): harness LinFn with "
             "raise-on-nth-call", "ambient state mutator"],
}
ASSUMPTIONS = [
    "in-place model changes and re-assignments of model/mean/trend/normalizer are always "
    "followed by the documented refresh Krige.set_condition() before the next observation",
    "honours_data only on systems with condition number < 1e8 and zero measurement error",
    "parameter grid steps >= 5 %, positions on a 1e-2 lattice, conditioning points >= 0.3 apart",
    "nugget > 0: fresh-object equality is applied to the deterministic parts (raw_krige, "
    "krige_var, raw_field); the noisy field is checked by twin execution",
]

KINDS = ["Simple", "Ordinary", "Universal", "ExtDrift", "Detrended"]


def ext_fn(pts):
    """External drift as a pure function of location (so targets and conditions agree)."""
    pts = np.asarray(pts, dtype=np.double)
    out = 0.5 + 0.3 * pts[0]
    for d in range(1, pts.shape[0]):
        out = out - 0.2 * (d) * pts[d] + 0.05 * pts[d] * pts[0]
    return out


def gen_cond(rng, dim, n):
    pts = []
    tries = 0
    while len(pts) < n and tries < 1000:
        tries += 1
        p = [round(rng.uniform(-3, 3), 2) for _ in range(dim)]
        if all(max(abs(a - b) for a, b in zip(p, q)) >= 0.3 for q in pts):
            pts.append(p)
    pos = [[p[d] for p in pts] for d in range(dim)]
    val = [round(rng.uniform(-2, 3), 3) for _ in pts]
    return pos, val


def gen_config(rng):
    dim = rng.choice([1, 2, 2, 3])
    if dim == 3 and rng.random() < 0.5:
        dim = 2
    model = cm.gen_model_spec(rng, dim, slow_share=0.06 if dim < 3 else 1.0)
    model["nugget"] = rng.choice([0.0, 0.0, 0.0, 0.1, 0.5])
    kind = rng.choice(KINDS)
    latlon = rng.random() < 0.07
    if latlon:
        # geographic coordinates: model dim 3 (Yadrenko), field dim 2 (lat, lon)
        dim = 2
        model = cm.gen_model_spec(rng, 3, name=rng.choice(["Gaussian", "Exponential",
                                                          "Spherical"]),
                                  nugget=rng.choice([0.0, 0.0, 0.1]))
        gsc = rng.choice([1.0, 57.29577951308232])
        model.update(latlon=True, geo_scale=gsc, anis=[1.0, 1.0], angles=[0.0, 0.0, 0.0],
                     len_scale=rng.choice([0.3, 0.7, 1.0]) * gsc)
        kind = rng.choice(["Simple", "Ordinary", "Detrended"])
    kr = {"kind": kind, "exact": rng.random() < 0.35,
          "pseudo_inv": rng.random() < 0.8, "pseudo_inv_type": rng.choice(["pinv", "pinvh"]),
          "cond_err": "nugget", "mean": None, "trend": None, "normalizer": None,
          "drift": None}
    if not kr["exact"] and rng.random() < 0.3:
        kr["cond_err"] = rng.choice([0.0, 0.05, 0.2])
    if kind == "Simple":
        kr["mean"] = rng.choice([0.0, 1.0, "lin"])
    if kind == "Universal":
        kr["drift"] = rng.choice(["linear", "fn", "quadratic" if dim == 1 else "linear"])
    if kind == "Detrended":
        kr["trend"] = "lin"
    elif rng.random() < 0.2:
        kr["trend"] = rng.choice([0.7, "lin"])
    if kind != "Detrended" and rng.random() < 0.2:
        kr["normalizer"] = "YeoJohnson"
    ncond = rng.randint(2 if kind in ("Simple", "Ordinary", "Detrended") else dim + 2, 6)
    if kind == "ExtDrift" and not latlon and dim > 1 and rng.random() < 0.35:
        # general Krige with functional AND external drift terms at once
        kr["ext_plus_linear"] = True
        ncond = max(ncond, dim + 3)
    pos, val = gen_cond(rng, dim, ncond)
    if latlon:
        pos = [[round(v * 20.0, 2) for v in pos[0]], [round(v * 50.0, 2) for v in pos[1]]]
    cfg = {
        "latlon": latlon,
        "n_ops": rng.randint(3, 14), "dim": dim, "model": model, "krige": kr,
        "cond": {"pos": pos, "val": val},
        "gen": {"mode_no": rng.choice([8, 16, 32, 48])},
        "seed": rng.choice(SEEDS), "axes": cm.pool_axes(rng, dim),
        "twin": True, "faults": rng.random() >= 0.4,
    }
    if not latlon and rng.random() < 0.15:
        # projected coordinates (UTM like): neighbouring targets are "equal" for np.allclose
        off = [rng.choice([4.5e5, 5.6e6, 1.2e5]) for _ in range(dim)]
        cfg["axes"] = [[round(v + o, 2) for v in a] for a, o in zip(cfg["axes"], off)]
        cfg["cond"]["pos"] = [[round(v + o, 2) for v in row] for row, o in zip(pos, off)]
        cfg["offset"] = off
    if latlon:
        cfg["axes"] = [sorted({round(rng.uniform(-70, 70), 2) for _ in range(8)})[:4],
                       sorted({round(rng.uniform(-170, 170), 2) for _ in range(8)})[:4]]
    if cm.is_slow(model):
        cfg["n_ops"] = min(cfg["n_ops"], 7)
        cfg["twin"] = model["nugget"] > 0
    w = {"gen": 7, "set_pos": 1, "set_condition": 3, "inplace_model": 2, "assign_model": 1,
         "assign_post": 1, "delete_fields": 1, "krige_direct": 1, "reseed": 1, "fault": 2}
    for k in sorted(w):
        r = rng.random()
        if r < 0.15 and k != "gen":
            w[k] = 0
        elif r > 0.85:
            w[k] *= 3
    if not cfg["faults"]:
        w["fault"] = 0
    cfg["weights"] = w
    return cfg


def build(spec, ctx=None, fns=None):
    """Fresh Krige + CondSRF from the abstract spec."""
    dim = spec["model"]["dim"]
    model = cm.build_model(spec["model"])
    kr = spec["krige"]
    fns = {} if fns is None else fns
    mean = cm.make_fn(kr["mean"], dim, ctx, "mean")
    trend = cm.make_fn(kr["trend"], dim, ctx, "trend")
    fns["mean"], fns["trend"] = mean, trend
    norm = cm.make_normalizer(kr["normalizer"])
    cpos = np.array(spec["cond"]["pos"], dtype=np.double)
    cval = np.array(spec["cond"]["val"], dtype=np.double)
    common = dict(exact=kr["exact"], cond_err=kr["cond_err"] if not isinstance(
        kr["cond_err"], list) else np.array(kr["cond_err"]), pseudo_inv=kr["pseudo_inv"],
        pseudo_inv_type=kr["pseudo_inv_type"])
    kind = kr["kind"]
    if kind == "Simple":
        k = gs.krige.Simple(model, cpos, cval, mean=0.0 if mean is None else mean,
                            normalizer=norm, trend=trend, **common)
    elif kind == "Ordinary":
        k = gs.krige.Ordinary(model, cpos, cval, normalizer=norm, trend=trend, **common)
    elif kind == "Universal":
        if kr["drift"] == "fn":
            drift = [cm.LinFn([0.5] + [0.0] * (dim - 1), 0.0, ctx, "drift0"),
                     cm.LinFn([0.0] * (dim - 1) + [1.0], 0.2, ctx, "drift1")]
            if dim == 1:
                drift = drift[:1]
            fns["drift"] = drift[0]
        else:
            drift = kr["drift"]
        k = gs.krige.Universal(model, cpos, cval, drift, normalizer=norm, trend=trend,
                               **common)
    elif kind == "ExtDrift":
        ext = spec["cond"].get("ext")
        ext = ext_fn(cpos) if ext is None else np.array(ext, dtype=np.double)
        if kr.get("ext_plus_linear"):
            k = gs.krige.Krige(model, cpos, cval, drift_functions="linear", ext_drift=ext,
                               unbiased=True, normalizer=norm, trend=trend, **common)
        else:
            k = gs.krige.ExtDrift(model, cpos, cval, ext, normalizer=norm, trend=trend,
                                  **common)
    elif kind == "Detrended":
        k = gs.krige.Detrended(model, cpos, cval, trend, **common)
    else:
        raise HarnessError(kind)
    cs = gs.CondSRF(k, seed=spec["seed"], mode_no=spec["gen"]["mode_no"])
    return cs


class Side:
    def __init__(self, spec, ctx, tag):
        self.tag = tag
        self.fns = {}
        self.seed_objs = {}
        self.cs = build(spec, ctx if tag == "sut" else None, self.fns)


STORES = [True, True, False, "alt", ["a1", "a2", "a3"], ["field", "raw_field", "rk2"],
          ["x", False, False], [True, True, False]]
KSTORES = [True, True, False, "kf", ["kf", "kv"], [True, "kv2"]]


class Machine:
    def __init__(self, config, ctx):
        self.cfg = config
        self.ctx = ctx
        self.dim = config["dim"]
        self.latlon = bool(config.get("latlon"))
        self.offset = config.get("offset")
        # coordinates of 1e6 cost ~1e-10 absolute in distances and phases on both sides, and
        # BLAS may round the isometrisation of n points differently for different n
        self.tol = 1e-9 if not self.offset else 1e-6
        self.mdim = config["model"]["dim"]
        self.spec = cm.spec_copy({k: config[k] for k in ("model", "krige", "cond", "gen",
                                                         "seed")})
        self.axes = [list(a) for a in config["axes"]]
        self.pool = cm.grid_points(self.axes)
        self.npool = self.pool.shape[1]
        self.sut = Side(self.spec, ctx, "sut")
        self.twin = Side(self.spec, ctx, "twin") if config.get("twin") else None
        self.spec["model"] = read_model(self.sut.cs.model)  # normal form for comparisons
        self.model_at_last_gen = jdump(self.spec["model"])  # what the generator's copy holds
        self.last = None  # ("u", idx) | ("s", sel) | ("c",) : positions currently stored
        self.force_observe = False
        # True while the next generation is known to start from a freshly seeded random stream
        # (new object, changed model, new seed): then even the nugget noise equals a fresh object
        self.rng_fresh = True

    def sides(self):
        return [self.sut] + ([self.twin] if self.twin else [])

    # --------------------------------------------------------------- op generation
    def gen_op(self, rng):
        w = self.cfg["weights"]
        kinds = sorted(k for k in w if w[k] > 0)
        kind = rng.choices(kinds, [w[k] for k in kinds])[0]
        # right after a call that died half-way: prefer a state change followed by an observation
        # (faults placed next to state changes find more than uniformly scattered ones)
        pops = getattr(self, "pending_ops", [])
        if pops and not self.force_observe:
            return copy.deepcopy(pops.pop(0))
        pend = getattr(self, "pending", [])
        if pend and not self.force_observe:
            kind = pend.pop(0)
        if self.force_observe:
            kind = "gen"
        m = self.spec["model"]
        kr = self.spec["krige"]
        if kind == "gen":
            return self._gen_gen(rng)
        if kind == "set_pos":
            return {"op": "set_pos", "idx": sorted(rng.sample(range(self.npool),
                                                              rng.randint(1, self.npool)))}
        if kind == "set_condition":
            what = rng.choice(["values", "values", "pos_values", "cond_err"]
                              + (["ext_drift"] if kr["kind"] == "ExtDrift" else []))
            n = len(self.spec["cond"]["val"])
            if what == "values":
                return {"op": "set_condition", "what": what,
                        "val": [round(rng.uniform(-2, 3), 3) for _ in range(n)]}
            if what == "pos_values":
                lo = 2 if kr["kind"] in ("Simple", "Ordinary", "Detrended") else self.dim + 2
                if kr.get("ext_plus_linear"):
                    lo = min(6, self.dim + 3)
                pos, val = gen_cond(rng, self.dim, rng.randint(lo, 6))
                if self.latlon:
                    pos = [[round(v * 20.0, 2) for v in pos[0]],
                           [round(v * 50.0, 2) for v in pos[1]]]
                if self.offset:
                    pos = [[round(v + o, 2) for v in row] for row, o in zip(pos, self.offset)]
                return {"op": "set_condition", "what": what, "pos": pos, "val": val}
            if what == "cond_err":
                if kr["exact"]:
                    v = "nugget"
                else:
                    v = rng.choice(["nugget", 0.0, 0.05, 0.2,
                                    [rng.choice([0.0, 0.05, 0.1]) for _ in range(n)]])
                return {"op": "set_condition", "what": what, "value": v}
            return {"op": "set_condition", "what": "ext_drift",
                    "ext": [round(rng.uniform(-1, 2), 3) for _ in range(n)]}
        if kind == "inplace_model":
            params = ["var", "len_scale", "nugget"]
            if self.dim > 1 and not self.latlon:
                params += ["anis", "angles"]
            params += ["opt:" + o for o in sorted(m["opt"])]
            params.append("rescale")
            p = rng.choice(params)
            if p == "rescale":
                v = rng.choice([x for x in (0.5, 1.0, 2.0, 3.0) if x != m.get("rescale")])
            elif p == "var":
                v = rng.choice(cm.VAR_GRID)
            elif p == "len_scale":
                v = rng.choice(cm.LEN_GRID)
            elif p == "nugget":
                v = 0.0 if m["nugget"] == 0 else rng.choice([0.1, 0.5, 0.25])
            elif p == "anis":
                v = [rng.choice(cm.ANIS_GRID) for _ in range(self.dim - 1)]
            elif p == "angles":
                v = [rng.choice(cm.ANGLE_GRID) for _ in range(cm.n_angles(self.dim))]
            else:
                v = rng.choice(cm.opt_grid(m["cls"], self.dim)[p[4:]])
            return {"op": "inplace_model", "param": p, "value": v,
                    "refresh": rng.choice(["noarg", "noarg", "values"])}
        if kind == "assign_model":
            if rng.random() < 0.3:
                # an equal-valued but distinct model object (later changed through the reference)
                return {"op": "assign_model", "model": cm.spec_copy(m), "equal": True}
            new = cm.gen_model_spec(rng, self.mdim, nugget=m["nugget"],
                                    slow_share=0.03 if not cm.is_slow(m) else 1.0,
                                    name=rng.choice(["Gaussian", "Exponential", "Spherical"])
                                    if self.latlon else None)
            if self.latlon:
                new.update(latlon=True, geo_scale=m["geo_scale"], anis=[1.0, 1.0],
                           angles=[0.0, 0.0, 0.0], len_scale=m["len_scale"])
            return {"op": "assign_model", "model": new}
        if kind == "assign_post":
            what = rng.choice(["mean", "trend", "normalizer"])
            if what == "mean":
                val = rng.choice([0.0, 1.0, 2.5, "lin"])
            elif what == "trend":
                val = rng.choice([None, 0.7, "lin"])
            else:
                val = rng.choice([None, "YeoJohnson", "LogNormal"])
            return {"op": "assign_post", "what": what, "value": val}
        if kind == "delete_fields":
            return {"op": "delete_fields", "target": rng.choice(["cs", "krige", "both"])}
        if kind == "krige_direct":
            return {"op": "krige_direct",
                    "idx": sorted(rng.sample(range(self.npool), rng.randint(1, self.npool)))
                    if rng.random() < 0.7 else None,
                    "return_var": rng.random() < 0.7, "store": rng.choice([True, False, "kx"])}
        if kind == "reseed":
            return {"op": "reseed", "how": rng.choice(["seed_attr", "reset_seed"]),
                    "value": rng.choice(SEEDS), "obj": rng.choice(["same", "distinct", "np"])}
        return self._gen_fault(rng)

    def _gen_gen(self, rng):
        r = rng.random()
        if r < 0.45:
            seed = {"mode": "keep"}
        else:
            v = self.spec["seed"] if r < 0.6 else rng.choice(SEEDS)
            seed = {"value": v, "obj": rng.choice(["same", "distinct", "np"])}
        op = {"op": "gen", "seed": seed, "store": rng.choice(STORES),
              "krige_store": rng.choice(KSTORES), "post": rng.random() < 0.6,
              "chunk": rng.choice([None, None, 1, 2, 5])}
        lays = ["unstructured", "unstructured", "structured", "at_cond", "buffer"]
        if self.spec["krige"]["kind"] == "Simple":
            lays.append("far")
        if self.last is not None:
            lays += ["reuse", "reuse", "same_again"]
        if self.dim > 1:
            lays.append("diag")
        lay = rng.choice(lays)
        op["layout"] = lay
        op["via"] = rng.choice(["call", "call", "wrapper"])
        if lay == "diag":
            # k points given as equally long coordinate arrays (x_i, y_i): the very same
            # arrays are a valid structured grid definition - used for the next call
            k = rng.randint(2, min(len(a) for a in self.axes))
            op["sel"] = [sorted(rng.sample(range(len(a)), k)) for a in self.axes]
            nxt = dict(op, layout="structured", via=rng.choice(["wrapper", "wrapper", "call"]),
                       seed={"mode": "keep"})
            self.pending_ops = [nxt]
        elif lay == "unstructured":
            op["idx"] = rng.sample(range(self.npool), rng.randint(1, self.npool))
        elif lay == "buffer":
            # the caller keeps ONE float64 (dim, n) array and overwrites it in place between
            # calls (a moving window): the library must not rely on a view of it
            op["idx"] = rng.sample(range(self.npool), min(3, self.npool))
        elif lay == "structured":
            op["sel"] = [sorted(rng.sample(range(len(a)), rng.randint(1, len(a))))
                         for a in self.axes]
        elif lay == "far":
            op["post"] = False
            op["n_far"] = rng.randint(1, 4)
            op["dir"] = [rng.choice([-1.0, 1.0, 0.5]) for _ in range(self.dim)]
        return op

    def _gen_fault(self, rng):
        f = rng.choice(["global_rng", "global_rng", "num_threads", "rejected_set",
                        "callback_raise", "fp_trap"])
        if f == "fp_trap":
            # right after an in-place model change, so that generator and kriging have work
            # in flight (model copy, resampling, new kriging matrix) when the call trips
            op = {"fault": f, "kind": rng.choice(["divide", "invalid", "under", "under", "all"]),
                  "idx": rng.sample(range(self.npool), rng.randint(1, min(4, self.npool))),
                  "set_first": {"param": rng.choice(["len_scale", "len_scale", "var"]),
                                "value": rng.choice(cm.LEN_GRID)}
                  if rng.random() < 0.7 else None}
            m = self.spec["model"]
            if m["cls"] not in cm.TRAP_PRONE and rng.random() < 0.5 and not self.latlon:
                # most families never trip a trap: move to one that does
                op["assign_first"] = cm.gen_model_spec(
                    rng, self.mdim, name=rng.choice(cm.TRAP_PRONE), nugget=m["nugget"])
            return op
        if f == "global_rng":
            return {"fault": f, "k": rng.randint(0, 2 ** 31), "n": rng.randint(0, 50)}
        if f == "num_threads":
            return {"fault": f, "value": rng.choice([None, 1, 2, 4, 16])}
        if f == "rejected_set":
            p = rng.choice(["var", "len_scale"])
            return {"fault": f, "param": p, "bad": rng.choice([-1.0, 0.0]),
                    "repair": rng.choice(cm.VAR_GRID if p == "var" else cm.LEN_GRID)}
        whats = [k for k in ("mean", "trend", "drift")
                 if isinstance(self.sut.fns.get(k), cm.LinFn)] or ["trend"]
        return {"fault": "callback_raise", "what": rng.choice(whats), "n": rng.randint(1, 6),
                "then_gen": rng.sample(range(self.npool), rng.randint(2, min(6, self.npool)))
                if rng.random() < 0.7 else None, "chunk": rng.choice([1, 1, 2])}

    # --------------------------------------------------------------- execution
    def apply(self, op):
        if "fault" in op:
            return self._apply_fault(op)
        return getattr(self, "_op_" + op["op"])(op)

    def _seed_obj(self, side, value, obj):
        if side.tag == "twin":
            obj = {"same": "distinct", "distinct": "same", "np": "same"}[obj]
        if obj == "np":
            return np.int64(value) if value < 2 ** 63 else int(value)
        if obj == "same":
            return side.seed_objs.setdefault(value, distinct_int(value))
        return distinct_int(value)

    def _positions(self, lay, op):
        """-> (pos argument, mesh_type, points array (dim,n), shape, new 'last')"""
        if lay in ("unstructured", "buffer"):
            idx = [i for i in op["idx"] if 0 <= i < self.npool]
            if not idx:
                raise Inapplicable("no points")
            if lay == "buffer":
                idx = (idx * 3)[:3]
            pts = self.pool[:, idx]
            return pts.copy(), "unstructured", pts, (len(idx),), ("u", idx)
        if lay == "structured":
            sel = [[j for j in s if 0 <= j < len(a)] for s, a in zip(op["sel"], self.axes)]
            if len(sel) != self.dim or any(not s for s in sel):
                raise Inapplicable("bad selection")
            axes = [np.array([a[j] for j in s]) for a, s in zip(self.axes, sel)]
            pts = cm.grid_points(axes)
            return axes, "structured", pts, tuple(len(a) for a in axes), ("s", sel)
        if lay == "diag":
            sel = [[j for j in s if 0 <= j < len(a)] for s, a in zip(op["sel"], self.axes)]
            if len(sel) != self.dim or len({len(s) for s in sel}) != 1 or not sel[0]:
                raise Inapplicable("bad selection")
            pts = np.array([[a[j] for j in s] for a, s in zip(self.axes, sel)], dtype=np.double)
            return pts.copy(), "unstructured", pts, (pts.shape[1],), ("c", pts.tolist())
        if lay == "at_cond":
            pts = np.array(self.spec["cond"]["pos"], dtype=np.double)
            return pts.copy(), "unstructured", pts, (pts.shape[1],), ("c", pts.tolist())
        if lay == "far":
            # >= 40 (isotropic) length scales away from every conditioning point
            m = self.spec["model"]
            # (the correlation length in use is len_scale / rescale)
            scale = m["len_scale"] / min(1.0, m.get("rescale") or 1.0) * max(
                [1.0] + list(m["anis"]))
            d = np.array((list(op.get("dir", [1.0])) + [1.0] * self.dim)[: self.dim])
            d = d / np.linalg.norm(d)
            n = max(1, int(op.get("n_far", 1)))
            base = np.max(np.abs(np.array(self.spec["cond"]["pos"]))) + 40.0 * scale
            pts = np.array([[round(float((base + 3.0 * scale * k) * d[i]), 2)
                             for k in range(n)] for i in range(self.dim)])
            return pts.copy(), "unstructured", pts, (n,), ("c", pts.tolist())
        raise HarnessError(lay)

    def _last_points(self):
        kind, what = self.last
        if kind == "u":
            return self._positions("unstructured", {"idx": what})
        if kind == "s":
            return self._positions("structured", {"sel": what})
        pts = np.array(what, dtype=np.double)
        return pts.copy(), "unstructured", pts, (pts.shape[1],), self.last

    def _twin_store(self, store, kstore):
        ts = {True: "alt", False: True, "alt": False}.get(store if not isinstance(store, list)
                                                          else None, True)
        tk = {True: ["kf", "kv"], False: True, "kf": True}.get(
            kstore if not isinstance(kstore, list) else None, False)
        return ts, tk

    def _op_gen(self, op):
        lay = op["layout"]
        if lay in ("reuse", "same_again"):
            if self.last is None:
                raise Inapplicable("no stored pos")
            pos, mesh_type, pts, shape, last = self._last_points()
            if lay == "reuse":
                pos = None
        else:
            pos, mesh_type, pts, shape, last = self._positions(lay, op)
        seed = op["seed"]
        if "value" in seed:
            if seed["value"] != self.spec["seed"]:
                self.rng_fresh = True
            self.spec["seed"] = seed["value"]
        nug = self.spec["model"]["nugget"] > 0
        # the generator compares the model with its private copy when it is called: a change
        # that was undone in the meantime is no change
        if jdump(self.spec["model"]) != self.model_at_last_gen:
            self.rng_fresh = True
        self.model_at_last_gen = jdump(self.spec["model"])
        rng_fresh, self.rng_fresh = self.rng_fresh, False
        post = bool(op["post"])
        results = []
        failed = False
        for s in self.sides():
            store, kstore = op["store"], op["krige_store"]
            if s.tag == "twin":
                store, kstore = self._twin_store(store, kstore)
            kw = {"post_process": post, "store": copy.deepcopy(store),
                  "krige_store": copy.deepcopy(kstore)}
            if "value" in seed:
                kw["seed"] = self._seed_obj(s, seed["value"], seed["obj"])
            if op.get("chunk"):
                kw["chunk_size"] = op["chunk"]
            if self.spec["krige"]["kind"] == "ExtDrift":
                kw["ext_drift"] = self._ext_at(pts)
            trap = contextlib.ExitStack()
            if op.get("trap"):
                # ambient fault: the caller runs this one call under an FP trap
                trap.enter_context(np.errstate(**{op["trap"]: "raise"}))
                trap.enter_context(contextlib.redirect_stdout(io.StringIO()))  # emcee report
            try:
              with trap:
                if pos is None:
                    res = s.cs(**kw)
                elif lay == "buffer":
                    if getattr(s, "buf", None) is None:
                        s.buf = np.ascontiguousarray(pos, dtype=np.double).copy()
                    else:
                        s.buf[...] = pos  # in place: same array object as in earlier calls
                        self.ctx.probe("caller_buffer_reused")
                    res = s.cs(s.buf, mesh_type=mesh_type, **kw)
                else:
                    p = [a.copy() for a in pos] if isinstance(pos, list) else pos.copy()
                    try:
                        if op.get("via") == "wrapper":
                            res = getattr(s.cs, mesh_type)(p, **kw)
                        else:
                            res = s.cs(p, mesh_type=mesh_type, **kw)
                    finally:
                        # the caller reuses its arrays: stored positions must be copies
                        for a in (p if isinstance(p, list) else [p]):
                            a += 3.25
              results.append(np.array(res, dtype=np.double))
            except cm.CallbackFault:
                if s.tag != "sut":
                    raise HarnessError("twin callback raised")
                failed = True
                results.append(None)
            except FloatingPointError:
                if not op.get("trap"):
                    raise
                self.ctx.probe("fp_trap.tripped")
                failed = True
                # whether the failed call had already stored its positions is not specified
                pos = last = None
                break
            except (ValueError, IndexError, TypeError, AttributeError, KeyError,
                    np.linalg.LinAlgError) as e:
                # the library raised on a legal call: compare with a fresh object
                self._fresh_must_raise_too(op, pos, mesh_type, pts, last, post, e)
                raise Inapplicable("call rejected by a fresh object too: %r" % (e,))
        if pos is not None or (failed and last is None):
            self.last = last
        if failed:
            self.ctx.probe("call_failed_midway")
            self.pending = ["gen"] if op.get("trap") else ["set_condition", "gen"]
            self.rng_fresh = False
            self.model_at_last_gen = jdump(self.spec["model"])
            # the twin did not fail: bring it to the same abstract state is not possible in
            # general (partial stores); from here on the twin is dropped for this run
            self.twin = None
            return
        res = results[0]
        self.ctx.observations += 1
        self.ctx.note("gen", res)
        if res.shape != tuple(shape):
            raise Violation("C07.shape", got=list(res.shape), want=list(shape))
        if self.twin is not None and not close(res, results[1], rtol=self.tol):
            raise Violation("C07.twin_equal", layout=lay, nugget=nug,
                            maxdiff=maxdiff(res, results[1]))
        # ---- fresh-object refinement
        fresh = build(self.spec)
        kw = {"post_process": post, "store": True}
        if self.spec["krige"]["kind"] == "ExtDrift":
            kw["ext_drift"] = self._ext_at(pts)
        fpos = self._fresh_args(pos, mesh_type, pts, last)
        fres = np.array(fresh(fpos, mesh_type=mesh_type, **kw), dtype=np.double)
        self.ctx.probe("fresh_objects_built")
        cs = self.sut.cs
        if not nug:
            if not close(res, fres, rtol=self.tol):
                raise Violation("C07.fresh_equal", layout=lay, maxdiff=maxdiff(res, fres),
                                stale=self._stale_parts(cs, fresh, op))
        else:
            st = self._stale_parts(cs, fresh, op)
            if st:
                raise Violation("C07.fresh_equal.parts", layout=lay, stale=st)
            if rng_fresh:
                self.ctx.probe("nugget_noise_compared_with_fresh")
                if not close(res, fres, rtol=self.tol):
                    raise Violation("C07.fresh_equal.nugget_noise", layout=lay,
                                    maxdiff=maxdiff(res, fres))
        # ---- defining formula (nugget free): K + sqrt(V/var) U, then mean/norm/trend
        if not nug:
            self._check_formula(res, pts, shape, mesh_type, post, fpos)
        # ---- far from the data simple kriging returns mean + unconditional field
        if lay == "far" and not nug and not post:
            self._check_far(res, pts)
        # ---- data are honoured
        if lay == "at_cond" or (lay in ("reuse", "same_again") and last[0] == "c"
                                and last[1] == np.array(self.spec["cond"]["pos"],
                                                        dtype=np.double).tolist()):
            self._check_honours(res, post)
        if not cm.is_slow(self.spec["model"]):
            pass
        else:
            self.ctx.probe("mcmc_sampling_path")

    def _fresh_args(self, pos, mesh_type, pts, last):
        fpos = [np.array(a) for a in pos] if isinstance(pos, list) else pts.copy()
        if isinstance(pos, list) or (pos is None and mesh_type == "structured"):
            kind, what = last
            fpos = [np.array([a[j] for j in s]) for a, s in zip(self.axes, what)]
        return fpos

    def _fresh_must_raise_too(self, op, pos, mesh_type, pts, last, post, err):
        kw = {"post_process": post, "store": True}
        if self.spec["krige"]["kind"] == "ExtDrift":
            kw["ext_drift"] = self._ext_at(pts)
        if op.get("chunk"):
            kw["chunk_size"] = op["chunk"]
        try:
            fresh = build(self.spec)
            fresh(self._fresh_args(pos, mesh_type, pts, last), mesh_type=mesh_type, **kw)
        except cm.CallbackFault:
            raise HarnessError("fresh callback raised")
        except Exception:
            return
        raise Violation("C07.call_raises", error="%s: %s" % (type(err).__name__, str(err)[:120]),
                        layout=op["layout"])

    def _ext_at(self, pts):
        """External drift at the targets; at the conditioning points it is the drift given
        for the conditions (which set_condition may have replaced by arbitrary values)."""
        ext = self.spec["cond"].get("ext")
        cpos = np.array(self.spec["cond"]["pos"], dtype=np.double)
        if ext is not None and pts.shape == cpos.shape and np.array_equal(pts, cpos):
            return np.array(ext, dtype=np.double)
        return ext_fn(pts)

    def _stored_names(self, op):
        st, ks = op["store"], op["krige_store"]
        names = ["field", "raw_field", "raw_krige"]
        if isinstance(st, list):
            names = [n if isinstance(n, str) else d for n, d in zip(st, names)]
            save = [isinstance(n, str) or bool(n) for n in st]
        elif isinstance(st, str):
            names[0] = st
            save = [True] * 3
        else:
            save = [bool(st)] * 3
        knames = ["field", "krige_var"]
        if isinstance(ks, list):
            knames = [n if isinstance(n, str) else d for n, d in zip(ks, knames)]
            ksave = [isinstance(n, str) or bool(n) for n in ks]
        elif isinstance(ks, str):
            knames[0] = ks
            ksave = [True] * 2
        else:
            ksave = [bool(ks)] * 2
        return names, save, knames, ksave

    def _stale_parts(self, cs, fresh, op):
        """Which stored deterministic parts differ from the fresh object's."""
        names, save, knames, ksave = self._stored_names(op)
        out = []
        pairs = [(cs, names[1], save[1], fresh, "raw_field"),
                 (cs, names[2], save[2], fresh, "raw_krige"),
                 (cs.krige, knames[1], ksave[1], fresh.krige, "krige_var")]
        for obj, name, saved, fobj, fname in pairs:
            if saved and name in obj.field_names and fname in fobj.field_names:
                if not close(obj[name], fobj[fname], rtol=self.tol):
                    out.append(fname)
                self.ctx.probe("stored_part_checked")
        return out

    def _check_formula(self, res, pts, shape, mesh_type, post, fpos):
        spec = self.spec
        fk = build(spec).krige
        kw = {}
        if spec["krige"]["kind"] == "ExtDrift":
            kw["ext_drift"] = self._ext_at(pts)
        K, V = fk(fpos, mesh_type=mesh_type, post_process=False, store=False, **kw)
        m0 = cm.spec_copy(spec["model"])
        m0["nugget"] = 0.0
        u = gs.SRF(cm.build_model(m0), seed=spec["seed"], mode_no=spec["gen"]["mode_no"])
        U = u(fpos, mesh_type=mesh_type, store=False)
        raw = K + np.sqrt(V / spec["model"]["var"]) * U
        if post:
            kr = spec["krige"]
            mean = cm.make_fn(kr["mean"], self.dim)
            trend = cm.make_fn(kr["trend"], self.dim)
            norm = cm.make_normalizer(kr["normalizer"])
            coords = [pts[d].reshape(shape) for d in range(self.dim)]
            val = raw
            if mean is not None:
                val = val + (mean(*coords) if callable(mean) else mean)
            if norm is not None:
                val = norm.denormalize(val)
            if trend is not None:
                val = val + (trend(*coords) if callable(trend) else trend)
            raw = val
        if not close(res, raw, rtol=max(1e-8, self.tol)):
            raise Violation("C07.formula", maxdiff=maxdiff(res, raw), post=post)

    def _check_far(self, res, pts):
        spec = self.spec
        if self.latlon or spec["krige"]["kind"] != "Simple" or spec["model"]["cls"] not in (
                "Gaussian", "Exponential", "Spherical", "Cubic", "Circular", "HyperSpherical",
                "SuperSpherical", "Linear", "TPLSimple"):
            return  # compact support or (super-)exponential decay only
        m0 = cm.spec_copy(spec["model"])
        u = gs.SRF(cm.build_model(m0), seed=spec["seed"], mode_no=spec["gen"]["mode_no"])
        U = np.array(u(pts.copy(), store=False), dtype=np.double)
        self.ctx.probe("far_field.checked")
        # raw (not post processed) field: kriging part vanishes, scaling factor -> 1
        if not close(res, U, rtol=1e-8):
            raise Violation("C07.far_field", maxdiff=maxdiff(res, U), model=spec["model"]["cls"])

    def _check_honours(self, res, post):
        spec = self.spec
        kr = spec["krige"]
        nug = spec["model"]["nugget"]
        ce = kr["cond_err"]
        # zero measurement error: exact interpolator, or a nugget-free model without cond_err
        # (with nugget > 0 and exact=False the nugget IS the measurement error of the data)
        zero_err = kr["exact"] or (nug == 0 and (ce == "nugget" or (
            not isinstance(ce, str) and np.all(np.asarray(ce) == 0))))
        if not zero_err or not post:
            return
        fk = build(spec).krige
        # conditioning of the kriging system (before inversion)
        try:
            n = fk.cond_no
            mat = np.zeros((fk.krige_size, fk.krige_size))
            from scipy.spatial.distance import cdist
            iso = fk.model.isometrize(fk.cond_pos)
            mat[:n, :n] = fk.model.covariance(cdist(iso.T, iso.T))
            mat[np.diag_indices(n)] += fk.cond_err
            if fk.unbiased:
                mat[n, :n] = 1
                mat[:n, n] = 1
            for i, f in enumerate(fk.drift_functions):
                d = f(*fk.cond_pos)
                mat[-fk.drift_no + i, :n] = d
                mat[:n, -fk.drift_no + i] = d
            if fk.ext_drift_no > 0:
                e = fk.krige_size - fk.ext_drift_no
                mat[e:, :n] = fk.cond_ext_drift
                mat[:n, e:] = fk.cond_ext_drift.T
            cond = np.linalg.cond(mat)
        except Exception:
            return
        if not np.isfinite(cond) or cond > 1e8:
            self.ctx.probe("honours.skipped_ill_conditioned")
            return
        vals = np.array(spec["cond"]["val"])
        # K is exact to ~cond*eps, but the field adds sqrt(V/var)*U and V ~ cond*eps*sill
        # at the data: the square root amplifies rounding to sqrt(cond*eps)
        tol = (np.abs(vals) + np.sqrt(spec["model"]["var"] + nug)) * (
            1e-6 + 5.0 * np.sqrt(cond * 2.3e-16))
        self.ctx.probe("honours.checked")
        if res.shape != vals.shape or not np.all(np.abs(res - vals) <= tol):
            raise Violation("C07.honours_data", maxdiff=maxdiff(res, vals), cond=float(cond),
                            kind=kr["kind"], exact=kr["exact"])

    # -- state changing ops
    def _op_set_pos(self, op):
        idx = [i for i in op["idx"] if 0 <= i < self.npool]
        if not idx:
            raise Inapplicable("no points")
        for s in self.sides():
            s.cs.set_pos(self.pool[:, idx].copy())
        self.last = ("u", idx)

    def _op_set_condition(self, op):
        what = op["what"]
        kr = self.spec["krige"]
        cond = self.spec["cond"]
        n = len(cond["val"])
        kw = {}
        if kr["normalizer"] == "LogNormal" and what in ("values", "pos_values") and \
                (min(op["val"]) <= 0.05 or kr["trend"] is not None):
            raise Inapplicable("LogNormal needs positive (detrended) data")
        if what == "values":
            val = list(op["val"])[:n]
            if len(val) != n:
                raise Inapplicable("length")
            kw = {"cond_val": np.array(val)}
            new = {"val": val}
        elif what == "pos_values":
            pos, val = op["pos"], op["val"]
            if len(pos) != self.dim or len(val) != len(pos[0]):
                raise Inapplicable("shape")
            if isinstance(kr["cond_err"], list) and len(val) != n:
                raise Inapplicable("cond_err vector length")
            kw = {"cond_pos": np.array(pos, dtype=np.double), "cond_val": np.array(val)}
            new = {"pos": pos, "val": val, "ext": None}
            if kr["kind"] == "ExtDrift":
                kw["ext_drift"] = ext_fn(np.array(pos, dtype=np.double))
        elif what == "cond_err":
            v = op["value"]
            if kr["exact"] and v != "nugget":
                raise Inapplicable("exact")
            if isinstance(v, list) and len(v) != n:
                raise Inapplicable("length")
            kw = {"cond_err": np.array(v) if isinstance(v, list) else v}
            new = {}
            kr["cond_err"] = v
        elif what == "ext_drift":
            if kr["kind"] != "ExtDrift" or len(op["ext"]) != n:
                raise Inapplicable("ext drift")
            kw = {"ext_drift": np.array(op["ext"])}
            new = {"ext": list(op["ext"])}
        else:
            raise HarnessError(what)
        for s in self.sides():
            mine = copy.deepcopy(kw)  # float64 arrays owned by the caller
            try:
                s.cs.krige.set_condition(**mine)
            except cm.CallbackFault:
                # the user's function failed inside set_condition: the user repeats the call
                self.ctx.probe("set_condition_failed_and_repeated")
                s.cs.krige.set_condition(**mine)
            if op.get("mutate_after", True):
                # the caller reuses its arrays afterwards: the kriging setup must own copies
                for a in mine.values():
                    if isinstance(a, np.ndarray) and a.dtype == np.double:
                        a += 7.25
                        a *= -1.5
                self.ctx.probe("condition_arrays_mutated_after_set_condition")
        cond.update(new)

    def _refresh(self, style="noarg"):
        if style == "values":
            # equally valid refresh: hand the (unchanged) conditioning values over again
            vals = np.array(self.spec["cond"]["val"], dtype=np.double)
            for s in self.sides():
                try:
                    s.cs.krige.set_condition(cond_val=vals.copy())
                except cm.CallbackFault:
                    self.ctx.probe("set_condition_failed_and_repeated")
                    s.cs.krige.set_condition(cond_val=vals.copy())
            self.ctx.probe("refresh_by_values")
            return
        for s in self.sides():
            try:
                s.cs.krige.set_condition()
            except cm.CallbackFault:
                self.ctx.probe("set_condition_failed_and_repeated")
                s.cs.krige.set_condition()

    def _op_inplace_model(self, op):
        p, v = op["param"], op["value"]
        m = self.sut.cs.model
        if p == "nugget" and (v > 0) != (m.nugget > 0):
            raise Inapplicable("nugget side switch")
        if p.startswith("opt:"):
            if p[4:] not in m.opt_arg:
                raise Inapplicable("no such opt arg")
            lo, hi = m.opt_arg_bounds[p[4:]][:2]
            if not lo <= v <= hi:
                raise Inapplicable("bounds")
        if p in ("anis", "angles") and self.dim == 1:
            raise Inapplicable("1d")
        ce = self.spec["krige"]["cond_err"]
        for s in self.sides():
            target = getattr(s, "model_ref", None) or s.cs.model
            try:
                setattr(target, p[4:] if p.startswith("opt:") else p, v)
            except ValueError as e:
                raise Inapplicable("setter rejected: %s" % e)
        newspec = read_model(getattr(self.sut, "model_ref", None) or self.sut.cs.model)
        self.spec["model"] = newspec
        self._refresh(op.get("refresh", "noarg"))

    def _op_assign_model(self, op):
        new = op["model"]
        if new["dim"] != self.mdim or (new["nugget"] > 0) != (
                self.spec["model"]["nugget"] > 0) or bool(new.get("latlon")) != self.latlon:
            raise Inapplicable("dim / nugget side / flavour")
        for s in self.sides():
            s.model_ref = cm.build_model(new)   # the user keeps a reference to what he assigns
            s.cs.model = s.model_ref
        newspec = read_model(self.sut.model_ref)
        self.spec["model"] = newspec
        self._refresh()

    def _op_assign_post(self, op):
        what, val = op["what"], op["value"]
        kr = self.spec["krige"]
        if what == "normalizer" and kr["kind"] == "Detrended":
            raise Inapplicable("detrended has no normalizer arg")
        if what == "mean" and kr["kind"] != "Simple":
            raise Inapplicable("mean only for simple kriging")
        if what == "trend" and kr["kind"] == "Detrended" and val is None:
            raise Inapplicable("detrended needs trend")
        if what == "trend" and val is not None and kr["normalizer"] == "LogNormal":
            raise Inapplicable("LogNormal needs positive detrended data")
        if what == "normalizer" and val == "LogNormal":
            # LogNormal needs positive (detrended) data
            vals = np.array(self.spec["cond"]["val"])
            tr = kr["trend"]
            if tr is not None or np.any(vals <= 0.05):
                raise Inapplicable("non-positive data for LogNormal")
        for s in self.sides():
            if what == "normalizer":
                s.cs.normalizer = cm.make_normalizer(val)
            else:
                fn = cm.make_fn(val, self.dim, self.ctx if s.tag == "sut" else None, what)
                s.fns[what] = fn
                setattr(s.cs, what, fn)
        kr[what] = val
        if what == "trend" and kr["normalizer"] == "LogNormal":
            kr["normalizer"] = kr["normalizer"]
        self._refresh()

    def _op_delete_fields(self, op):
        for s in self.sides():
            if op["target"] in ("cs", "both"):
                s.cs.delete_fields()
            if op["target"] in ("krige", "both"):
                s.cs.krige.delete_fields()

    def _op_krige_direct(self, op):
        if op["idx"] is None:
            if self.last is None:
                raise Inapplicable("no pos")
            pos, mesh_type, pts, shape, last = self._last_points()
            pos = None
        else:
            pos, mesh_type, pts, shape, last = self._positions("unstructured", op)
        kw = {"return_var": op["return_var"], "store": op["store"]}
        if self.spec["krige"]["kind"] == "ExtDrift":
            kw["ext_drift"] = self._ext_at(pts)
        for s in self.sides():
            try:
                if pos is None:
                    s.cs.krige(**kw)
                else:
                    s.cs.krige(pos.copy(), **kw)
            except cm.CallbackFault:
                self.twin = None
                self.ctx.probe("call_failed_midway")
        if pos is not None:
            self.last = last

    def _op_reseed(self, op):
        for s in self.sides():
            so = self._seed_obj(s, op["value"], op["obj"])
            if op["how"] == "seed_attr":
                s.cs.generator.seed = so
            else:
                s.cs.generator.reset_seed(so)
        if op["how"] != "seed_attr" or op["value"] != self.spec["seed"]:
            self.rng_fresh = True
        self.spec["seed"] = op["value"]

    def _apply_fault(self, op):
        f = op["fault"]
        if f == "global_rng":
            np.random.seed(op["k"] % (2 ** 32))
            if op["n"]:
                np.random.rand(op["n"])
            self.ctx.fired(f)
        elif f == "num_threads":
            gsconfig.NUM_THREADS = op["value"]
            self.ctx.fired(f)
        elif f == "rejected_set":
            p = op["param"]
            for s in self.sides():
                try:
                    setattr(s.cs.model, p, op["bad"])
                except ValueError:
                    pass
                else:
                    raise Violation("C07.rejected_not_raised", param=p, value=op["bad"])
            self.ctx.fired(f)
            for s in self.sides():
                setattr(s.cs.model, p, op["repair"])
            self.spec["model"] = read_model(self.sut.cs.model)
            self.rng_fresh = False  # whether the generator saw the rejected value is not defined
            self._refresh()
        elif f == "fp_trap":
            idx = [i for i in op["idx"] if 0 <= i < self.npool]
            if not idx:
                raise Inapplicable("no points")
            if op.get("assign_first"):
                try:
                    self._op_assign_model({"op": "assign_model", "model": op["assign_first"]})
                    # generator and kriging take the family over in an ordinary call first
                    self._op_gen({"op": "gen", "layout": "unstructured", "idx": idx[:1],
                                  "seed": {"mode": "keep"}, "store": True, "krige_store": True,
                                  "post": True})
                except Inapplicable:
                    pass
            if op.get("set_first"):
                try:
                    self._op_inplace_model({"op": "inplace_model", "refresh": "noarg",
                                            "param": op["set_first"]["param"],
                                            "value": op["set_first"]["value"]})
                except Inapplicable:
                    pass
            self.ctx.fired(f)
            self._op_gen({"op": "gen", "layout": "unstructured", "idx": idx,
                          "seed": {"mode": "keep"}, "store": True, "krige_store": True,
                          "post": True, "trap": op["kind"]})
        elif f == "callback_raise":
            fn = self.sut.fns.get(op["what"])
            if not isinstance(fn, cm.LinFn):
                raise Inapplicable("no callable " + op["what"])
            fn.arm(op["n"])
            if op.get("then_gen"):
                # place the fault inside an operation with in-flight state: a chunked
                # generation on new positions that dies in the n-th invocation
                self._op_gen({"op": "gen", "layout": "unstructured", "idx": op["then_gen"],
                              "seed": {"mode": "keep"}, "store": True, "krige_store": True,
                              "post": True, "chunk": op.get("chunk", 1)})
        else:
            raise HarnessError("fault %r" % (op,))

    def state_key(self):
        cs = self.sut.cs
        return [self.spec["model"], self.spec["krige"], len(self.spec["cond"]["val"]),
                self.spec["seed"], sorted(cs.field_names), sorted(cs.krige.field_names),
                cs.mesh_type, self.last[0] if self.last else None]

    def close(self):
        for s in [self.sut]:
            for fn in s.fns.values():
                if isinstance(fn, cm.LinFn):
                    fn.disarm()


def signature(rec):
    v = rec["violation"]
    return "%s:%s" % (v["invariant"], ",".join(v["detail"].get("stale", []) or []))


def simplify(config, ops):
    for i, op in enumerate(ops):
        if op.get("op") == "gen":
            for key, val in (("store", True), ("krige_store", True), ("chunk", None),
                             ("post", False)):
                if op.get(key) != val:
                    o2 = copy.deepcopy(ops)
                    o2[i][key] = val
                    yield config, o2
            if "idx" in op and len(op["idx"]) > 1:
                o2 = copy.deepcopy(ops)
                o2[i]["idx"] = op["idx"][:1]
                yield config, o2
            if op.get("layout") == "structured":
                o2 = copy.deepcopy(ops)
                o2[i]["layout"] = "unstructured"
                o2[i]["idx"] = [0]
                yield config, o2
    kr = config["krige"]
    for key, val in (("kind", "Ordinary"), ("normalizer", None), ("pseudo_inv_type", "pinv"),
                     ("exact", False)):
        if kr.get(key) != val and not (key == "kind" and kr["kind"] in ("Detrended",)):
            c2 = copy.deepcopy(config)
            c2["krige"][key] = val
            if key == "kind":
                c2["krige"].update({"mean": None, "drift": None})
            yield c2, ops
    if config["model"]["cls"] != "Gaussian" and not any(
            o.get("op") == "assign_model" or str(o.get("param", "")).startswith("opt:")
            for o in ops):
        c2 = copy.deepcopy(config)
        c2["model"]["cls"] = "Gaussian"
        c2["model"]["opt"] = {}
        yield c2, ops
    if config.get("twin"):
        c2 = copy.deepcopy(config)
        c2["twin"] = False
        yield c2, ops
