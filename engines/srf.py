"""C11 - seeded field generation is deterministic and local.

History machine over one long-lived SRF (RandMeth / IncomprRandMeth / Fourier) and its twin.
Oracles: fresh-object refinement (nugget free), twin execution (any nugget).
"""
import contextlib
import io
import warnings

import numpy as np

import gstools as gs
from gstools import config as gsconfig

from sim.core import Violation, Inapplicable, HarnessError, close, maxdiff, jdump, distinct_int
from . import common as cm

NAME = "srf"
PROPERTY = "C11"
TIERS = {"quick": (5000, 90.0), "thorough": (150000, 1800.0)}
CHANGE_KINDS = {"set", "assign_model", "gen_set", "set_post", "set_generator"}
OBSERVE_KINDS = {"gen", "gen_direct"}
RULE = ("one run = seeded history (3-14 ops) over one long-lived SRF and its twin: gen in a "
        "layout (unstructured subset/permutation, split in two calls, structured sub-grid, "
        "meshio mesh points/centroids, reuse stored pos), in-place model changes and "
        "restorations, model re-assignment, generator settings (mode_no, period, seed setters), "
        "post-processing settings, ambient faults. distinct = distinct abstract history "
        "signature (op kinds + bucketed arguments); non-trivial = at least one state-changing "
        "op or fault precedes an observation")
COMPONENTS = {
    "real": ["gstools.field.srf/base/generator (working tree)", "gstools.covmodel", "compiled "
             "summator kernels (.so in tree)", "gstools.random.rng", "emcee", "hankel", "scipy",
             "numpy", "meshio", "gstools.normalizer"],
    "stub": ["user callables (mean/trend): harness LinFn with raise-on-nth-call",
             "ambient state mutator (np.random.seed, config.NUM_THREADS, np.seterr)"],
}
ASSUMPTIONS = [
    "parameter changes come from a grid whose neighbours differ by >=5% (compare() uses isclose)",
    "positions lie on a 1e-2 lattice (_pos_equal uses allclose)",
    "RandMeth.sampling setter is not an op (not in the property's list of settings)",
    "comparison tolerance 1e-10 relative to max(1,|ref|): same code on both sides",
]

SEEDS = [0, 7, 42, 255, 256, 1000, 20170519, 20220510, 4294967295]
STORE_NAMES = [True, False, "alt", "second"]


def gen_config(rng):
    dim = rng.choice([1, 2, 2, 3])
    kind = rng.choice(["RandMeth", "RandMeth", "RandMeth", "Fourier", "Fourier",
                       "IncomprRandMeth"])
    if kind == "IncomprRandMeth" and dim == 1:
        kind = "RandMeth"
    slow_share = 0.12
    if dim == 3 and kind != "Fourier":
        slow_share = 1.0  # no ppf in 3-D: every model is MCMC sampled
        if rng.random() < 0.7:
            dim = 2
            slow_share = 0.12
    if kind == "Fourier":
        # Fourier never samples radii: every model is cheap except hankel-spectrum ones
        name = rng.choice(["Gaussian", "Exponential", "Gaussian", "Exponential", "Matern",
                           "Stable", "Rational", "Spherical" if dim <= 3 else "Gaussian"])
        model = cm.gen_model_spec(rng, dim, name=name)
    else:
        model = cm.gen_model_spec(rng, dim, slow_share=slow_share)
    if rng.random() < 0.6:
        model["nugget"] = 0.0
    gen = {"kind": kind}
    if kind == "Fourier":
        gen["period"] = [rng.choice([8.0, 10.0, 12.5, 20.0]) for _ in range(dim)]
        gen["mode_no"] = [rng.choice([4, 6, 8]) for _ in range(dim)]
    else:
        gen["mode_no"] = rng.choice([4, 8, 16, 32, 48])
        if kind == "IncomprRandMeth":
            gen["mean_velocity"] = rng.choice([1.0, 0.5, 2.0])
    vector = kind == "IncomprRandMeth"
    flavor = "plain"
    r = rng.random()
    if kind == "RandMeth" and r < 0.22:
        flavor = "temporal" if r < 0.14 else ("latlon" if r < 0.19 else "latlon_temporal")
    if flavor == "temporal":
        sdim = rng.choice([1, 1, 2])
        dim = sdim + 1  # field dim includes time
        model = cm.gen_model_spec(rng, dim, slow_share=0.12 if dim < 3 else 1.0)
        model["temporal"] = True
        model["nugget"] = 0.0 if rng.random() < 0.6 else model["nugget"]
    elif flavor.startswith("latlon"):
        temporal = flavor.endswith("temporal")
        mdim = 3 + int(temporal)
        model = cm.gen_model_spec(rng, mdim, name=rng.choice(["Gaussian", "Exponential",
                                                             "Spherical"]), nugget=0.0)
        model.update(latlon=True, temporal=temporal, len_scale=rng.choice([0.3, 0.7, 1.0]),
                     geo_scale=rng.choice([1.0, 57.29577951308232]),
                     angles=[0.0] * cm.n_angles(mdim))
        model["len_scale"] *= model["geo_scale"]
        model["anis"] = [1.0, 1.0] + ([rng.choice(cm.ANIS_GRID)] if temporal else [])
        dim = 2 + int(temporal)
    cfg = {
        "flavor": flavor,
        "n_ops": rng.randint(3, 14),
        "dim": dim,
        "model": model,
        "gen": gen,
        "seed": rng.choice(SEEDS),
        "mean": rng.choice([0.0, 0.0, 1.5] + ([] if vector else ["lin"])),
        "trend": rng.choice([None, None, 0.7] + ([] if vector else ["lin"])),
        "normalizer": rng.choice([None, None, None, "LogNormal", "YeoJohnson"]),
        "axes": cm.pool_axes(rng, dim),
        "twin": True,
        "faults": rng.random() >= 0.4,
    }
    if flavor.startswith("latlon"):
        lat = sorted({round(rng.uniform(-70, 70), 2) for _ in range(8)})[:3]
        lon = sorted({round(rng.uniform(-170, 170), 2) for _ in range(8)})[:3]
        cfg["axes"] = [lat, lon] + ([sorted({round(rng.uniform(-3, 3), 2)
                                             for _ in range(4)})[:2]] if dim == 3 else [])
        cfg["n_ops"] = min(cfg["n_ops"], 7)
    elif rng.random() < 0.25:
        # projected coordinates (UTM like): neighbouring points are "equal" for np.allclose
        off = [rng.choice([4.5e5, 5.6e6, 1.2e5]) for _ in range(dim)]
        cfg["axes"] = [[round(v + o, 2) for v in a] for a, o in zip(cfg["axes"], off)]
        cfg["offset"] = off
    if cm.is_slow(model) and kind != "Fourier":
        cfg["twin"] = model["nugget"] > 0 or rng.random() < 0.3
        cfg["n_ops"] = min(cfg["n_ops"], 8)
    if vector:
        cfg["normalizer"] = None
    w = {"gen": 6, "set": 4, "assign_model": 1, "gen_set": 3, "set_post": 1, "fault": 3,
         "gen_direct": 1}
    for k in sorted(w):  # swarm: randomly mute / boost op kinds
        r = rng.random()
        if r < 0.15 and k != "gen":
            w[k] = 0
        elif r > 0.85:
            w[k] *= 3
    if not cfg["faults"]:
        w["fault"] = 0
    cfg["weights"] = w
    if flavor == "plain" and rng.random() < 0.12:
        # history before the first use: the model was built in another dimension and brought
        # to this one in place (dim, then ratios and angles re-assigned)
        md = model["dim"]
        cfg["model_route"] = {"from_dim": rng.choice([d for d in (1, 2, 3) if d != md])}
    return cfg


class Side:
    """One SRF instance with its own callables (SUT or twin)."""

    def __init__(self, spec, ctx, tag, route=None):
        self.tag = tag
        self.fns = {}
        self.seed_objs = {}
        self.srf = build_srf(spec, ctx if tag == "sut" else None, self.fns, route=route)


def model_via_dim_change(mspec, from_dim):
    """The same model, reached through an in-place change of the dimension."""
    d0, d1 = from_dim, mspec["dim"]
    s0 = cm.spec_copy(mspec)
    s0["dim"] = d0
    s0["anis"] = (list(mspec["anis"]) + [1.0] * d0)[: d0 - 1]
    s0["angles"] = (list(mspec["angles"]) + [0.0] * 3)[: cm.n_angles(d0)]
    try:
        m = cm.build_model(s0)
        with warnings.catch_warnings():
            warnings.simplefilter("ignore")
            m.dim = d1
        if d1 > 1:
            m.anis = list(mspec["anis"])
            m.angles = list(mspec["angles"])
    except ValueError:
        return None  # not a valid model in the other dimension
    return m


def build_srf(spec, ctx=None, fns=None, route=None):
    model = None
    if route and route.get("from_dim"):
        model = model_via_dim_change(spec["model"], route["from_dim"])
        if model is not None and ctx is not None:
            ctx.probe("model_built_via_dim_change")
    if model is None:
        model = cm.build_model(spec["model"])
    dim = spec["model"]["dim"]
    mean = cm.make_fn(spec["mean"], dim, ctx, "mean")
    trend = cm.make_fn(spec["trend"], dim, ctx, "trend")
    if fns is not None:
        fns["mean"], fns["trend"] = mean, trend
    g = dict(spec["gen"])
    kind = g.pop("kind")
    return gs.SRF(model, mean=mean, normalizer=cm.make_normalizer(spec["normalizer"]),
                  trend=trend, generator=kind, seed=spec["seed"], **g)


def rng_choice_nan(op):
    """Two spellings of 'keep the seed' (explicit nan / default), picked from the op itself."""
    return len(str(op)) % 2 == 0


def read_model(model):
    """Read the public parameter state back into a spec (values as the model reports them)."""
    return {
        "cls": model.name, "dim": model.dim, "var": float(model.var),
        "len_scale": float(model.len_scale), "anis": [float(a) for a in model.anis],
        "angles": [float(a) for a in model.angles], "nugget": float(model.nugget),
        "opt": {o: float(getattr(model, o)) for o in model.opt_arg},
        "rescale": float(model.rescale),
        "latlon": bool(model.latlon), "temporal": bool(model.temporal),
        "geo_scale": float(model.geo_scale),
    }


class Machine:
    def __init__(self, config, ctx):
        self.cfg = config
        self.ctx = ctx
        self.dim = config["dim"]
        self.spec = {k: config[k] for k in ("model", "gen", "seed", "mean", "trend",
                                           "normalizer")}
        self.spec = cm.spec_copy(self.spec)
        self.axes = [list(a) for a in config["axes"]]
        self.pool = cm.grid_points(self.axes)
        self.npool = self.pool.shape[1]
        route = config.get("model_route")
        self.sut = Side(self.spec, ctx, "sut", route)
        self.twin = Side(self.spec, ctx, "twin", route) if config.get("twin") else None
        self.spec["model"] = read_model(self.sut.srf.model)  # normal form for comparisons
        self.ref_cache = {}
        self.undo = []
        self.last = None  # description of the last requested positions
        self.rng_fresh = True            # next generation starts from a freshly seeded stream
        self.model_at_last_gen = None    # set after the spec was normalised below
        self.flavor = config.get("flavor", "plain")
        self.mdim = self.spec["model"]["dim"]
        self.vector = self.spec["gen"]["kind"] == "IncomprRandMeth"
        # phases k*x lose ~1e-16*|x| absolute precision and BLAS may round the isometrisation
        # of n points differently for different n: scale the tolerance with the coordinates
        self.tol = 1e-10 if not config.get("offset") else 1e-6
        self.allow_lin = not self.vector
        self.poisoned = False

    # ------------------------------------------------------------------ generation of ops
    def gen_op(self, rng):
        w = self.cfg["weights"]
        kinds = sorted(k for k in w if w[k] > 0)
        kind = rng.choices(kinds, [w[k] for k in kinds])[0]
        if getattr(self, "force_observe", False):
            kind = "gen"
        if kind == "gen" or (kind == "fault" and self.last is None and rng.random() < 0.5):
            return self._gen_gen(rng)
        if kind == "gen_direct":
            return {"op": "gen_direct", "idx": rng.sample(range(self.npool), min(3, self.npool)),
                    "add_nugget": False}
        if kind == "set":
            return self._gen_set(rng)
        if kind == "assign_model":
            m = self.spec["model"]
            equal = rng.random() < 0.3
            if equal:
                new = cm.spec_copy(m)
            else:
                name = m["cls"] if rng.random() < 0.5 else None
                if self.spec["gen"]["kind"] == "Fourier" and name is None:
                    name = rng.choice(["Gaussian", "Exponential", "Matern"])
                new = cm.gen_model_spec(rng, self.mdim, name=name, nugget=m["nugget"],
                                        slow_share=0.05 if not cm.is_slow(m) else 1.0)
                for k in ("latlon", "temporal", "geo_scale"):
                    if k in m:
                        new[k] = m[k]
                if m.get("latlon"):
                    new["angles"] = [0.0] * len(new["angles"])
                    new["anis"] = [1.0, 1.0] + new["anis"][2:]
                    new["len_scale"] = m["len_scale"]
            return {"op": "assign_model", "model": new, "equal": equal}
        if kind == "gen_set":
            return self._gen_gen_set(rng)
        if kind == "set_post":
            what = rng.choice(["mean", "trend", "normalizer"])
            if what == "normalizer":
                val = rng.choice([None, "LogNormal", "YeoJohnson"]) if not self.vector else None
            else:
                val = rng.choice([0.0 if what == "mean" else None, 1.5, 0.7]
                                 + (["lin"] if self.allow_lin else []))
            return {"op": "set_post", "what": what, "value": val}
        return self._gen_fault(rng)

    def _seed_arg(self, rng):
        r = rng.random()
        if r < 0.45:
            return {"mode": "keep"}
        if r < 0.7:
            v = self.spec["seed"]  # same value again
        else:
            v = rng.choice(SEEDS)
        return {"value": v, "obj": rng.choice(["same", "distinct", "np"])}

    def _gen_gen(self, rng):
        op = {"op": "gen", "seed": self._seed_arg(rng), "store": rng.choice(STORE_NAMES),
              "post": rng.random() < 0.8}
        layouts = ["unstructured", "unstructured", "permuted", "split", "structured", "mesh"]
        if self.last is not None:
            layouts.append("reuse")
        lay = rng.choice(layouts)
        op["layout"] = lay
        n = self.npool
        if lay in ("unstructured", "permuted", "split", "mesh"):
            k = rng.randint(1, n)
            idx = rng.sample(range(n), k)
            if lay == "unstructured":
                idx.sort()
            op["idx"] = idx
            if lay == "split":
                if k < 2:
                    op["layout"] = "unstructured"
                else:
                    op["cut"] = rng.randint(1, k - 1)
            if lay == "mesh":
                op["points"] = rng.choice(["points", "centroids"])
                op["dirsel"] = rng.randint(0, 11)
                if k < 2:
                    op["points"] = "points"
            op["via"] = rng.choice(["call", "unstructured"])
        elif lay == "structured":
            op["sel"] = [sorted(rng.sample(range(len(a)), rng.randint(1, len(a))))
                         for a in self.axes]
            op["via"] = rng.choice(["call", "structured"])
        return op

    def _gen_set(self, rng):
        m = self.spec["model"]
        if self.undo and rng.random() < 0.3:
            p, old = self.undo[-1]
            return {"op": "set", "param": p, "value": old, "restore": True}
        params = ["var", "len_scale", "nugget"]
        md = self.mdim
        if self.flavor.startswith("latlon"):
            if self.flavor.endswith("temporal"):
                params += ["anis_time"]
        elif md > 1:
            params += ["anis", "angles", "len_scale_list"]
        params += ["opt:" + o for o in sorted(m["opt"])]
        params.append("rescale")
        p = rng.choice(params)
        if p == "anis_time":
            return {"op": "set", "param": "anis", "value": rng.choice(cm.ANIS_GRID)}
        if p == "var":
            v = rng.choice([x for x in cm.VAR_GRID if abs(x - m["var"]) > 0.04 * x] or cm.VAR_GRID)
        elif p == "len_scale":
            v = rng.choice(cm.LEN_GRID)
        elif p == "nugget":
            # stay on the same side (zero / positive): the nugget-free clause is per history
            v = 0.0 if m["nugget"] == 0 else rng.choice([0.1, 0.5, 0.25])
        elif p == "anis":
            v = [rng.choice(cm.ANIS_GRID) for _ in range(md - 1)]
            if rng.random() < 0.3:
                v = v[0]
        elif p == "angles":
            v = [rng.choice(cm.ANGLE_GRID) for _ in range(cm.n_angles(md))]
            if rng.random() < 0.3:
                v = v[0]
        elif p == "len_scale_list":
            v = [rng.choice(cm.LEN_GRID) for _ in range(rng.randint(2, md))]
        elif p == "rescale":
            v = rng.choice([1.0, 0.5, 2.0])
        else:
            v = rng.choice(cm.opt_grid(m["cls"], md)[p[4:]])
        op = {"op": "set", "param": p, "value": v}
        if p in ("anis", "angles") and isinstance(v, list) and self.flavor == "plain" \
                and rng.random() < 0.25:
            op["elementwise"] = True
        return op

    def _gen_gen_set(self, rng):
        kind = self.spec["gen"]["kind"]
        choices = ["seed_attr", "reset_seed", "update_seed", "mode_no"]
        if kind == "Fourier":
            choices += ["period", "period", "mode_no"]
        if kind == "IncomprRandMeth":
            choices.append("mean_u")
        choices.append("update")
        p = rng.choice(choices)
        if p == "update":
            args = {"model": rng.random() < 0.6}
            if rng.random() < 0.4:
                args["seed"] = self.spec["seed"] if rng.random() < 0.3 else rng.choice(SEEDS)
            if kind == "Fourier":
                cur = self.spec["gen"]
                if rng.random() < 0.6:
                    args["period"] = list(cur["period"]) if rng.random() < 0.3 else \
                        [rng.choice([8.0, 10.0, 12.5, 20.0]) for _ in range(self.dim)]
                if rng.random() < 0.6:
                    args["mode_no"] = list(cur["mode_no"]) if rng.random() < 0.5 else \
                        [rng.choice([4, 6, 8]) for _ in range(self.dim)]
            if len(args) == 1 and not args["model"]:
                args["seed"] = rng.choice(SEEDS)
            return {"op": "gen_set", "param": "update", "value": args,
                    "obj": rng.choice(["same", "distinct", "np"])}
        if p == "reset_seed" and rng.random() < 0.35:
            # documented default: keep the seed, recalculate everything from it
            return {"op": "gen_set", "param": p, "value": None, "keep": True, "obj": "same"}
        if p in ("seed_attr", "reset_seed", "update_seed"):
            v = self.spec["seed"] if rng.random() < 0.3 else rng.choice(SEEDS)
            return {"op": "gen_set", "param": p, "value": v,
                    "obj": rng.choice(["same", "distinct", "np"])}
        if p == "mode_no":
            if kind == "Fourier":
                v = [rng.choice([4, 6, 8]) for _ in range(self.dim)]
                if rng.random() < 0.3:
                    v = v[0]
            else:
                v = rng.choice([4, 8, 16, 32, 48])
            return {"op": "gen_set", "param": p, "value": v}
        if p == "period":
            v = [rng.choice([8.0, 10.0, 12.5, 20.0]) for _ in range(self.dim)]
            if rng.random() < 0.3:
                v = v[0]
            return {"op": "gen_set", "param": p, "value": v, "as_array": rng.random() < 0.4}
        return {"op": "gen_set", "param": "mean_u", "value": rng.choice([1.0, 0.5, 2.0])}

    def _gen_fault(self, rng):
        f = rng.choice(["global_rng", "global_rng", "num_threads", "use_core", "errstate",
                        "rejected_set", "callback_raise", "rejected_seed", "errstate_raise",
                        "foreign_hankel"])
        if f == "errstate_raise":
            # placed right after an in-place model change, so that the generator has work in
            # flight (model copy, resampling) when the call trips
            op = {"fault": f, "kind": rng.choice(["divide", "invalid", "under", "under", "all"]),
                  "idx": rng.sample(range(self.npool), min(3, self.npool)),
                  "set_first": {"param": "len_scale", "value": rng.choice(cm.LEN_GRID)}
                  if rng.random() < 0.7 else None}
            m = self.spec["model"]
            if m["cls"] not in cm.TRAP_PRONE and rng.random() < 0.5 and self.flavor == "plain":
                # most families never trip a trap: move to one that does (measured: underflow
                # in Stable / TPLStable sampling, negative numerical spectrum of Rational)
                new = cm.gen_model_spec(rng, self.mdim, name=rng.choice(cm.TRAP_PRONE),
                                        nugget=m["nugget"])
                op["assign_first"] = new
            return op
        if f == "foreign_hankel":
            return {"fault": f, "kw": rng.choice([{"N": 300}, {"N": 200, "h": 0.003}])}
        if f == "rejected_seed" and self.spec["gen"]["kind"] == "Fourier" and rng.random() < 0.5:
            bad = [rng.choice([4, 6, 8, 10]) for _ in range(self.dim)]
            # odd counts and counts that are not whole numbers (8.5 has an even integer part)
            bad[rng.randrange(self.dim)] = rng.choice([3, 5, 7, 7, 4.5, 8.25, 6.5])
            via = rng.choice(["setter", "update", "update_with_model", "update_with_period"])
            op = {"fault": "rejected_mode_no", "bad": bad, "via": via}
            if via == "update_with_model" and self.dim > 1:
                op["set_first"] = {"param": "anis",
                                   "value": [rng.choice(cm.ANIS_GRID) for _ in range(self.dim - 1)]}
            if via == "update_with_period":
                op["period"] = [rng.choice([8.0, 10.0, 12.5, 20.0]) for _ in range(self.dim)]
            return op
        if f == "rejected_seed":
            sf = None
            if rng.random() < 0.5:
                if self.mdim > 1 and self.flavor == "plain" and rng.random() < 0.6:
                    sf = {"param": "anis",
                          "value": [rng.choice(cm.ANIS_GRID) for _ in range(self.mdim - 1)]}
                else:
                    sf = {"param": "len_scale", "value": rng.choice(cm.LEN_GRID)}
            return {"fault": f, "set_first": sf, "restore": rng.random() < 0.6,
                    "bad": rng.choice([-1, -20170519]),
                    "idx": rng.sample(range(self.npool), min(2, self.npool)),
                    "repair": self.spec["seed"] if rng.random() < 0.7 else rng.choice(SEEDS),
                    "obj": rng.choice(["same", "distinct", "np"])}
        if f == "global_rng":
            return {"fault": f, "k": rng.randint(0, 2 ** 31), "n": rng.randint(0, 50)}
        if f == "num_threads":
            return {"fault": f, "value": rng.choice([None, 1, 2, 3, 4, 8, 16])}
        if f == "use_core":
            return {"fault": f, "value": rng.random() < 0.7}
        if f == "errstate":
            return {"fault": f, "value": rng.choice(["warn", "ignore"])}
        if f == "rejected_set":
            p = rng.choice(["var", "len_scale", "nugget"] + (
                ["anis"] if self.mdim > 1 and self.flavor == "plain" else []))
            bad = {"var": rng.choice([-1.0, 0.0]), "len_scale": rng.choice([-2.0, 0.0]),
                   "nugget": -0.5, "anis": rng.choice([-1.0, 0.0])}[p]
            good = {"var": rng.choice(cm.VAR_GRID), "len_scale": rng.choice(cm.LEN_GRID),
                    "nugget": self.spec["model"]["nugget"],
                    "anis": [rng.choice(cm.ANIS_GRID) for _ in range(self.mdim - 1)]}[p]
            return {"fault": f, "param": p, "bad": bad, "repair": good}
        return {"fault": "callback_raise", "n": rng.randint(1, 2),
                "what": rng.choice(["mean", "trend"])}

    # ------------------------------------------------------------------ execution
    def sides(self):
        return [self.sut] + ([self.twin] if self.twin else [])

    def apply(self, op):
        if "fault" in op:
            return self._apply_fault(op)
        k = op["op"]
        if k == "gen":
            return self._apply_gen(op)
        if k == "set":
            return self._apply_set(op)
        if k == "assign_model":
            return self._apply_assign(op)
        if k == "gen_set":
            return self._apply_gen_set(op)
        if k == "set_post":
            return self._apply_set_post(op)
        if k == "gen_direct":
            return self._apply_gen_direct(op)
        raise HarnessError("unknown op %r" % (op,))

    # -- helpers
    def _seed_obj(self, side, value, obj):
        if side.tag == "twin":  # the twin differs in the identity of the seed object
            obj = {"same": "distinct", "distinct": "same", "np": "same"}[obj]
        if obj == "np":
            return np.int64(value) if value < 2 ** 63 else int(value)
        if obj == "same":
            return side.seed_objs.setdefault(value, distinct_int(value))
        return distinct_int(value)

    def _set_param(self, model, p, v):
        if p == "len_scale_list":
            model.len_scale = list(v)
        elif p.startswith("opt:"):
            if p[4:] not in model.opt_arg:
                raise Inapplicable("no opt arg " + p)
            setattr(model, p[4:], v)
        elif p in ("anis", "angles"):
            if model.dim == 1:
                raise Inapplicable("1d")
            setattr(model, p, v)
        else:
            setattr(model, p, v)

    def _sync_spec_model(self):
        self.spec["model"] = read_model(self.sut.srf.model)
        if self.twin:
            t = read_model(self.twin.srf.model)
            if jdump(t) != jdump(self.spec["model"]):
                raise Violation("C11.twin_param_state", sut=self.spec["model"], twin=t)

    def _apply_set(self, op):
        p, v = op["param"], op["value"]
        m = self.sut.srf.model
        if p == "nugget" and (v > 0) != (m.nugget > 0):
            raise Inapplicable("nugget side switch")
        before = read_model(m)
        old = (before["opt"].get(p[4:]) if p.startswith("opt:") else
               before["len_scale"] if p == "len_scale_list" else before.get(p))
        if p.startswith("opt:") and p[4:] not in before["opt"]:
            raise Inapplicable("no such opt arg")
        if p.startswith("opt:"):
            grid = cm.opt_grid(before["cls"], self.dim).get(p[4:], [])
            lo, hi = m.opt_arg_bounds[p[4:]][:2]
            if not (lo <= v <= hi):
                raise Inapplicable("value outside bounds after shrinking")
        for s in self.sides():
            if op.get("elementwise") and p in ("anis", "angles") and isinstance(v, list):
                # the arrays the model hands out are its state: written element by element
                arr = getattr(s.srf.model, p)
                if len(arr) != len(v) or self.flavor != "plain":
                    raise Inapplicable("elementwise needs the complete list, plain models")
                for i, x in enumerate(v):
                    arr[i] = x
                self.ctx.probe("set.elementwise")
                continue
            try:
                self._set_param(s.srf.model, p, v)
            except ValueError as e:
                raise Inapplicable("setter rejected value: %s" % e)
        if not op.get("restore"):
            self.undo.append(("len_scale" if p == "len_scale_list" else p, old))
        elif self.undo:
            self.undo.pop()
        self._sync_spec_model()

    def _apply_assign(self, op):
        new = op["model"]
        if new["dim"] != self.mdim or bool(new.get("latlon")) != bool(
                self.spec["model"].get("latlon")) or bool(new.get("temporal")) != bool(
                self.spec["model"].get("temporal")):
            raise Inapplicable("dim / flavour")
        if (new["nugget"] > 0) != (self.spec["model"]["nugget"] > 0):
            raise Inapplicable("nugget side switch")
        for s in self.sides():
            s.srf.model = cm.build_model(new)
        self.undo = []
        self._sync_spec_model()

    def _apply_gen_set(self, op):
        p, v = op["param"], op["value"]
        kind = self.spec["gen"]["kind"]
        if p == "period" and kind != "Fourier":
            raise Inapplicable("period")
        if p == "mean_u" and kind != "IncomprRandMeth":
            raise Inapplicable("mean_u")
        if p == "update":
            a = dict(v)
            if kind != "Fourier" and ("period" in a or "mode_no" in a):
                raise Inapplicable("period / mode_no are Fourier arguments of update()")
            for k in ("period", "mode_no"):
                if k in a and len(a[k]) != self.dim:
                    raise Inapplicable("per-axis list length")
            for s in self.sides():
                kw = {}
                if a.get("model"):
                    kw["model"] = s.srf.model
                if a.get("seed") is not None:
                    kw["seed"] = self._seed_obj(s, a["seed"], op["obj"])
                for k in ("period", "mode_no"):
                    if k in a:
                        kw[k] = list(a[k])
                if not kw:
                    raise Inapplicable("empty update")
                s.srf.generator.update(**kw)
            if a.get("seed") is not None:
                self.spec["seed"] = a["seed"]
            for k in ("period", "mode_no"):
                if k in a:
                    self.spec["gen"][k] = list(a[k])
            self.ctx.probe("gen.update_combo")
            self.rng_fresh = False  # whether this combination re-seeded is not modelled
            self.model_at_last_gen = None
            return
        for s in self.sides():
            g = s.srf.generator
            if p == "seed_attr":
                g.seed = self._seed_obj(s, v, op["obj"])
            elif p == "reset_seed" and op.get("keep"):
                if rng_choice_nan(op):
                    g.reset_seed(np.nan)
                else:
                    g.reset_seed()
            elif p == "reset_seed":
                g.reset_seed(self._seed_obj(s, v, op["obj"]))
            elif p == "update_seed":
                g.update(seed=self._seed_obj(s, v, op["obj"]))
            elif p == "mode_no":
                if kind == "Fourier":
                    g.mode_no = v
                else:
                    if isinstance(v, list):
                        raise Inapplicable("list mode_no")
                    g.mode_no = v
            elif p == "period":
                if op.get("as_array"):
                    arr = np.array(v if isinstance(v, list) else [v] * self.dim, dtype=np.double)
                    g.period = arr
                    arr *= 3.0  # the caller reuses its array: the generator must own its copy
                    self.ctx.probe("period_array_mutated_after_assignment")
                else:
                    g.period = v
            elif p == "mean_u":
                g.mean_u = v
        if p == "reset_seed" and op.get("keep"):
            self.rng_fresh = True
            self.ctx.probe("gen.reset_seed_keep")
        elif p in ("seed_attr", "reset_seed", "update_seed"):
            if p == "reset_seed" or v != self.spec["seed"]:
                self.rng_fresh = True
            self.spec["seed"] = v
            if p == "reset_seed":
                self.ctx.probe("gen.reset_seed")
        elif p == "mode_no":
            if kind == "Fourier":
                vv = v if isinstance(v, list) else [v]
                vv = (vv + [vv[-1]] * self.dim)[: self.dim]
                self.spec["gen"]["mode_no"] = vv
                self.rng_fresh = True  # a mesh update always re-seeds
            else:
                if v != self.spec["gen"]["mode_no"]:
                    self.rng_fresh = True
                self.spec["gen"]["mode_no"] = v
        elif p == "period":
            vv = v if isinstance(v, list) else [v]
            vv = (vv + [vv[-1]] * self.dim)[: self.dim]
            self.spec["gen"]["period"] = vv
            self.rng_fresh = True
        elif p == "mean_u":
            self.spec["gen"]["mean_velocity"] = v
        # NOTE: a pending in-place model change is only picked up at the next call; the
        # fresh object is always built from the full spec, so nothing else to do here.

    def _apply_set_post(self, op):
        what, val = op["what"], op["value"]
        if self.vector and what == "normalizer" and val is not None:
            raise Inapplicable("vector field")
        if val == "lin" and not self.allow_lin:
            raise Inapplicable("callable mean/trend not allowed here")
        for s in self.sides():
            if what == "normalizer":
                s.srf.normalizer = cm.make_normalizer(val)
            else:
                fn = cm.make_fn(val, self.dim, self.ctx if s.tag == "sut" else None, what)
                s.fns[what] = fn
                setattr(s.srf, what, fn)
        self.spec[what] = val

    def _apply_fault(self, op):
        f = op["fault"]
        if f == "global_rng":
            np.random.seed(op["k"] % (2 ** 32))
            if op["n"]:
                np.random.rand(op["n"])
            self.ctx.fired(f)
        elif f == "num_threads":
            gsconfig.NUM_THREADS = op["value"]
            self.ctx.fired(f)
        elif f == "use_core":
            gsconfig.USE_GSTOOLS_CORE = bool(op["value"])
            self.ctx.fired(f)
        elif f == "errstate":
            np.seterr(all=op["value"])
            self.ctx.fired(f)
        elif f == "rejected_set":
            p = op["param"]
            if p == "anis" and self.dim == 1:
                raise Inapplicable("1d")
            for s in self.sides():
                try:
                    self._set_param(s.srf.model, p, op["bad"])
                except ValueError:
                    pass
                else:
                    raise Violation("C11.rejected_not_raised", param=p, value=op["bad"])
            self.ctx.fired(f)
            # documented repair: assign a valid value to the same parameter
            for s in self.sides():
                self._set_param(s.srf.model, p, op["repair"])
            self._sync_spec_model()
        elif f == "errstate_raise":
            self._apply_errstate_raise(op)
        elif f == "foreign_hankel":
            self._apply_foreign_hankel(op)
        elif f == "rejected_seed":
            self._apply_rejected_seed(op)
        elif f == "rejected_mode_no":
            if self.spec["gen"]["kind"] != "Fourier" or len(op["bad"]) != self.dim:
                raise Inapplicable("Fourier only")
            via = op.get("via")
            if via == "update_with_model" and op.get("set_first"):
                try:
                    self._apply_set({"op": "set", "param": op["set_first"]["param"],
                                     "value": op["set_first"]["value"]})
                except Inapplicable:
                    pass
            for s in self.sides():
                try:
                    if via == "update":
                        s.srf.generator.update(mode_no=list(op["bad"]))
                    elif via == "update_with_model":
                        s.srf.generator.update(model=s.srf.model, mode_no=list(op["bad"]))
                    elif via == "update_with_period" and op.get("period"):
                        s.srf.generator.update(period=list(op["period"]),
                                               mode_no=list(op["bad"]))
                    else:
                        s.srf.generator.mode_no = list(op["bad"])
                except ValueError:
                    pass
                else:
                    raise Violation("C11.odd_mode_no_accepted", mode_no=op["bad"])
            self.rng_fresh = False
            self.model_at_last_gen = None
            # a rejected setting is not a change: the abstract spec stays as it is and the
            # next observations are compared with a generator built from it
            self.ctx.fired("rejected_mode_no")
        elif f == "callback_raise":
            fn = self.sut.fns.get(op["what"])
            if not isinstance(fn, cm.LinFn):
                raise Inapplicable("no callable " + op["what"])
            fn.arm(op["n"])
        else:
            raise HarnessError("unknown fault %r" % (op,))

    def _apply_gen_direct(self, op):
        """Direct call of the generator with ONE caller array that is overwritten in place
        between calls (particle tracking style); compared with a fresh generator."""
        if self.spec["model"]["nugget"] > 0:
            raise Inapplicable("nugget noise")
        idx = [i for i in op["idx"] if 0 <= i < self.npool]
        if not idx:
            raise Inapplicable("no points")
        idx = (idx * 3)[:3]
        # make sure a pending in-place model change has reached the generator
        pts = self.pool[:, idx]
        out = []
        mkey = jdump(self.spec["model"])
        if self.model_at_last_gen is not None and mkey != self.model_at_last_gen:
            self.rng_fresh = True
        self.model_at_last_gen = mkey
        for s in self.sides():
            s.srf.generator.update(s.srf.model)
            iso = np.ascontiguousarray(s.srf.model.isometrize(pts))
            if getattr(s, "gbuf", None) is None or s.gbuf.shape != iso.shape:
                s.gbuf = iso.copy()
            else:
                s.gbuf[...] = iso
                self.ctx.probe("generator_buffer_reused")
            out.append(np.array(s.srf.generator(s.gbuf, add_nugget=False), dtype=np.double))
        fresh = build_srf(self.spec)
        exp = np.array(fresh.generator(np.ascontiguousarray(fresh.model.isometrize(pts)),
                                       add_nugget=False), dtype=np.double)
        self.ctx.observations += 1
        self.ctx.note("gen_direct", out[0])
        if not close(out[0], exp, rtol=self.tol):
            raise Violation("C11.generator_direct", maxdiff=maxdiff(out[0], exp),
                            gen=self.spec["gen"]["kind"])

    def _apply_errstate_raise(self, op):
        """Ambient fault: the caller runs one generation under np.errstate(<kind>='raise').
        If the library trips over it the call dies half-way (FloatingPointError); the history
        continues under normal error handling and every later observation is checked in full."""
        idx = [i for i in op["idx"] if 0 <= i < self.npool]
        if not idx:
            raise Inapplicable("no points")
        gen_op = {"op": "gen", "layout": "unstructured", "idx": idx, "via": "call",
                  "seed": {"mode": "keep"}, "store": True, "post": True}
        if op.get("assign_first"):
            try:
                self._apply_assign({"op": "assign_model", "model": op["assign_first"]})
                # the generator takes the family over in an ordinary call first
                self._apply_gen(dict(gen_op, idx=idx[:1]))
            except Inapplicable:
                pass
        if op.get("set_first"):
            try:
                self._apply_set({"op": "set", "param": op["set_first"]["param"],
                                 "value": op["set_first"]["value"]})
            except Inapplicable:
                pass
        # only the library call runs under the trap; the reference is computed normally
        self.errctx = {op["kind"]: "raise"}
        self.ctx.fired("errstate_raise")
        try:
            self._apply_gen(gen_op)
        except FloatingPointError:
            self.ctx.probe("call_failed_midway")
            self.ctx.probe("errstate_raise.tripped")
            # whether a failed call had already stored its positions is not specified
            self.last = None
            self.twin = None  # the twin was not called: from here on single execution
            self.rng_fresh = False
            self.model_at_last_gen = None
        finally:
            self.errctx = None

    def _apply_foreign_hankel(self, op):
        """Ambient fault: somewhere else in the process another model is created with custom
        Hankel-transform settings.  A fresh object built from the same spec must give the same
        values before and after."""
        post = True
        before = np.array(self._ref_pool(post))
        gs.Spherical(dim=2, hankel_kw=dict(op["kw"]))
        other = gs.Gaussian(dim=1)
        other.hankel_kw = dict(op["kw"])
        self.ctx.fired("foreign_hankel")
        fresh = build_srf(self.spec)
        after = np.array(fresh(self.pool.copy(), post_process=post, store=False),
                         dtype=np.double)
        self.ctx.observations += 1
        if self.spec["model"]["nugget"] == 0 and not close(after, before, rtol=self.tol):
            raise Violation("C11.ambient_independent", fault="foreign_hankel",
                            maxdiff=maxdiff(after, before), model=self.spec["model"]["cls"])

    def _apply_rejected_seed(self, op):
        idx = [i for i in op["idx"] if 0 <= i < self.npool]
        if not idx:
            raise Inapplicable("no points")
        pts = self.pool[:, idx]
        undo = None
        sf = op.get("set_first")
        if sf:
            # the refused call finds a changed model: it dies in the middle of the update
            try:
                n_undo = len(self.undo)
                self._apply_set({"op": "set", "param": sf["param"], "value": sf["value"]})
                if len(self.undo) > n_undo:
                    undo = self.undo[-1]
            except Inapplicable:
                pass
        for s in self.sides():
            try:
                s.srf(pts.copy(), seed=op["bad"], store=False)
            except (ValueError, TypeError, OverflowError):
                pass
            else:
                raise Violation("C11.bad_seed_accepted", seed=op["bad"])
        self.ctx.fired("rejected_seed")
        if undo is not None and op.get("restore"):
            # ... and the user takes the change back before trying again
            try:
                self._apply_set({"op": "set", "param": undo[0], "value": undo[1],
                                 "restore": True})
                self.ctx.probe("restored_after_failed_call")
            except Inapplicable:
                pass
        self.last = ("u", idx)
        # the seed is poisoned: the user states a valid seed with the next call
        self._apply_gen({"op": "gen", "layout": "unstructured", "idx": idx, "via": "call",
                         "seed": {"value": op["repair"], "obj": op["obj"]}, "store": True,
                         "post": True})

    # -- reference
    def _ref_pool(self, post):
        key = jdump(self.spec) + str(post)
        if key not in self.ref_cache:
            fresh = build_srf(self.spec)
            vals = fresh(self.pool.copy(), post_process=post, store=False)
            self.ref_cache[key] = np.array(vals, dtype=np.double)
            self.ctx.probe("fresh_objects_built")
            if cm.is_slow(self.spec["model"]) and self.spec["gen"]["kind"] != "Fourier":
                self.ctx.probe("mcmc_sampling_path")
        return self.ref_cache[key]

    def _ref_at(self, pts, post):
        fresh = build_srf(self.spec)
        self.ctx.probe("fresh_objects_built")
        return np.array(fresh(np.array(pts), post_process=post, store=False), dtype=np.double)

    def _call(self, side, op, pos, mesh_type, seed_arg, store):
        srf = side.srf
        kw = {"post_process": op["post"], "store": store}
        if "value" in seed_arg:
            kw["seed"] = self._seed_obj(side, seed_arg["value"], seed_arg["obj"])
        via = op.get("via", "call")
        errctx = getattr(self, "errctx", None) or {}
        if errctx:
            # emcee prints a report to stdout when the likelihood raises under the trap
            with contextlib.redirect_stdout(io.StringIO()):
                return self._call_inner(srf, kw, via, errctx, pos, mesh_type)
        return self._call_inner(srf, kw, via, errctx, pos, mesh_type)

    def _call_inner(self, srf, kw, via, errctx, pos, mesh_type):
        if pos is None:
            with np.errstate(**errctx):
                return srf(**kw)
        try:
            with np.errstate(**errctx):
                if via == "structured":
                    return srf.structured(pos, **kw)
                if via == "unstructured":
                    return srf.unstructured(pos, **kw)
                return srf(pos, mesh_type=mesh_type, **kw)
        finally:
            # the caller reuses its position arrays after the call: the field object must keep
            # its own copy (layout "reuse" later evaluates at the ORIGINAL points)
            for a in (pos if isinstance(pos, (list, tuple)) else [pos]):
                if isinstance(a, np.ndarray) and a.dtype == np.double:
                    a += 3.25
            self.ctx.probe("pos_arrays_mutated_after_call")

    def _twin_store(self, store):
        return {True: "tw_a", False: True, "alt": False, "second": "field"}[store]

    def _apply_gen(self, op):
        lay = op["layout"]
        post = bool(op["post"])
        seed_arg = op["seed"]
        nug = self.spec["model"]["nugget"] > 0
        calls = []  # list of (pos, mesh_type, expected-index-description)
        if lay in ("unstructured", "permuted", "mesh", "split"):
            idx = [i for i in op["idx"] if 0 <= i < self.npool]
            if not idx:
                raise Inapplicable("no points")
            if lay == "split":
                cut = max(1, min(op.get("cut", 1), len(idx) - 1))
                if len(idx) < 2:
                    calls = [("u", idx)]
                else:
                    calls = [("u", idx[:cut]), ("u", idx[cut:])]
            elif lay == "mesh":
                calls = [("m", idx)]
            else:
                calls = [("u", idx)]
        elif lay == "structured":
            sel = [[j for j in s if 0 <= j < len(a)] for s, a in zip(op["sel"], self.axes)]
            if len(sel) != self.dim or any(not s for s in sel):
                raise Inapplicable("bad selection")
            calls = [("s", sel)]
        elif lay == "reuse":
            if self.last is None:
                raise Inapplicable("no stored pos")
            calls = [("r", self.last)]
        else:
            raise HarnessError("layout " + lay)
        if "value" in seed_arg:
            if seed_arg["value"] != self.spec["seed"]:
                self.rng_fresh = True
            self.spec["seed"] = seed_arg["value"]
        mkey = jdump(self.spec["model"])
        if self.model_at_last_gen is not None and mkey != self.model_at_last_gen:
            self.rng_fresh = True  # the generator re-seeds when it meets a changed model
        self.model_at_last_gen = mkey
        rng_fresh, self.rng_fresh = self.rng_fresh, False
        fresh_exact = None
        first = True
        for kind, what in calls:
            sa = seed_arg if first else {"mode": "keep"}
            first = False
            results = []
            raised = None
            for s in self.sides():
                store = op["store"] if s.tag == "sut" else self._twin_store(op["store"])
                try:
                    results.append(self._one_call(s, op, kind, what, sa, store))
                except cm.CallbackFault as e:
                    if s.tag != "sut":
                        raise HarnessError("twin callback raised")
                    raised = e
                    results.append(None)
            # remember positions (set_pos happened even if the callback raised)
            if kind in ("u", "s"):
                self.last = (kind, what)
            elif kind == "m":
                self.last = self.last_mesh
            if raised is not None:
                self.ctx.probe("call_failed_midway")
                rng_fresh = False
                self.rng_fresh = False
                continue
            (res, exp_desc) = results[0]
            self.ctx.observations += 1
            self.ctx.note("gen", res)
            if self.twin:
                tres = results[1][0]
                if not close(res, tres, rtol=self.tol):
                    raise Violation("C11.twin_equal", layout=lay, nugget=nug,
                                    maxdiff=maxdiff(res, tres), seed=seed_arg)
            if nug and rng_fresh and kind in ("u", "s"):
                # freshly seeded stream: even the nugget noise equals that of a fresh object
                # doing exactly the same call(s)
                if fresh_exact is None:
                    fresh_exact = build_srf(self.spec)
                if kind == "u":
                    fx = fresh_exact(self.pool[:, what].copy(), post_process=post, store=False)
                else:
                    fx = fresh_exact([np.array([a[j] for j in s_]) for a, s_ in
                                      zip(self.axes, what)], mesh_type="structured",
                                     post_process=post, store=False)
                self.ctx.probe("nugget_noise_compared_with_fresh")
                if not close(res, np.asarray(fx), rtol=self.tol):
                    raise Violation("C11.fresh_after_change.nugget_noise", layout=lay,
                                    maxdiff=maxdiff(res, np.asarray(fx)),
                                    gen=self.spec["gen"]["kind"])
            if not nug:
                exp = self._expected(kind, what, post, exp_desc)
                if not close(res, exp, rtol=self.tol):
                    raise Violation("C11.pure_of_location", layout=lay, via=op.get("via"),
                                    maxdiff=maxdiff(res, exp), seed=seed_arg,
                                    gen=self.spec["gen"]["kind"])

    def _one_call(self, side, op, kind, what, seed_arg, store):
        if kind == "u":
            pos = self.pool[:, what].copy()
            return self._call(side, op, pos, "unstructured", seed_arg, store), None
        if kind == "s":
            pos = [np.array([a[j] for j in s]) for a, s in zip(self.axes, what)]
            if self.dim == 1 and op.get("via") != "structured":
                pos = pos  # list with one axis
            return self._call(side, op, pos, "structured", seed_arg, store), None
        if kind == "r":
            return self._call(side, op, None, None, seed_arg, store), None
        if kind == "m":
            import meshio
            # which mesh columns carry the field's coordinates, in which order ("zx": first
            # coordinate in column 2, second in column 0); unused columns hold other numbers
            order = {1: [[0], [1], [2]], 2: [[0, 1], [1, 0], [0, 2], [2, 0], [1, 2], [2, 1]],
                     3: [[0, 1, 2], [2, 0, 1], [1, 0, 2], [2, 1, 0]]}[self.dim]
            sel = order[op.get("dirsel", 0) % len(order)]
            pts3 = np.full((len(what), 3), 7.5)
            for k_, col in enumerate(sel):
                pts3[:, col] = self.pool[k_, what]
            n = len(what)
            if n >= 2:
                cells = [("line", np.array([[i, i + 1] for i in range(n - 1)]))]
                if n >= 3:
                    cells.append(("triangle", np.array([[0, 1, 2]])))
                if n >= 4:
                    cells.append(("quad", np.array([[0, 1, 2, 3]])))
                    cells.append(("line", np.array([[0, n - 1], [1, n - 1]])))
            else:
                cells = [("vertex", np.array([[0]]))]
            mesh = meshio.Mesh(pts3, cells)
            kw = {"post_process": op["post"], "store": store}
            if "value" in seed_arg:
                kw["seed"] = self._seed_obj(side, seed_arg["value"], seed_arg["obj"])
            direction = "".join("xyz"[c] for c in sel)
            if op.get("dirsel", 0) % 3 == 2:
                direction = list(sel)  # documented alternative: list of indices
            # which positions the field object holds afterwards (also when the call dies in
            # the post-processing: the positions are set before)
            if op["points"] == "centroids":
                cents = np.vstack([np.mean(pts3[c.data], axis=1) for c in mesh.cells])
                ptsx = cents.T[sel]
                self.last_mesh = ("x", ptsx.tolist())
            else:
                self.last_mesh = ("u", list(what))
            out = side.srf.mesh(mesh, points=op["points"], direction=direction,
                                name="f_" + side.tag, **kw)
            if op["points"] == "centroids":
                # the mesh must carry what was returned
                stored = np.concatenate(
                    [np.asarray(a) for a in mesh.cell_data["f_" + side.tag]], axis=0)
                if self.vector:
                    stored = stored.T
                if not close(stored, out):
                    raise Violation("C11.mesh_data_mismatch", points="centroids")
                return out, ptsx
            stored = np.asarray(mesh.point_data["f_" + side.tag])
            if self.vector:
                stored = stored.T
            if not close(stored, out):
                raise Violation("C11.mesh_data_mismatch", points="points")
            return out, None
        raise HarnessError(kind)

    last_mesh = None

    def _expected(self, kind, what, post, desc):
        if kind == "r":
            kind, what = what
        if kind == "m":
            if desc is not None:
                return self._ref_at(desc, post)
            kind = "u"
        if kind == "x":
            return self._ref_at(np.array(what), post)
        ref = self._ref_pool(post)
        if kind == "u":
            return ref[..., what]
        if kind == "s":
            shape = tuple(len(a) for a in self.axes)
            grid = ref.reshape(((self.dim,) if self.vector else ()) + shape)
            ix = np.ix_(*what)
            return grid[(slice(None),) + ix] if self.vector else grid[ix]
        raise HarnessError("expected " + str(kind))

    def state_key(self):
        srf = self.sut.srf
        return [self.spec["model"], self.spec["gen"], self.spec["seed"],
                sorted(srf.field_names), srf.mesh_type, srf.pos is not None,
                str(self.spec["mean"]), str(self.spec["trend"]), self.spec["normalizer"]]

    def close(self):
        pass


def signature(rec):
    v = rec["violation"]
    d = v["detail"]
    return "%s:%s" % (v["invariant"], d.get("gen", d.get("layout", "")))


def simplify(config, ops):
    """Candidate simplifications (each is tried; kept if the same invariant still fails)."""
    import copy
    # fewer points per gen
    for i, op in enumerate(ops):
        if op.get("op") == "gen" and "idx" in op and len(op["idx"]) > 1:
            for half in (op["idx"][: len(op["idx"]) // 2], op["idx"][len(op["idx"]) // 2:],
                         op["idx"][:1]):
                o2 = copy.deepcopy(ops)
                o2[i]["idx"] = half
                if o2[i]["layout"] == "split" and len(half) < 2:
                    o2[i]["layout"] = "unstructured"
                yield config, o2
        if op.get("op") == "gen" and op.get("layout") not in ("unstructured", "reuse"):
            o2 = copy.deepcopy(ops)
            o2[i]["layout"] = "unstructured"
            o2[i].setdefault("idx", [0])
            o2[i]["via"] = "call"
            yield config, o2
        if op.get("op") == "gen" and op.get("store") is not True:
            o2 = copy.deepcopy(ops)
            o2[i]["store"] = True
            yield config, o2
    for key, val in (("mean", 0.0), ("trend", None), ("normalizer", None)):
        if config.get(key) != val:
            c2 = copy.deepcopy(config)
            c2[key] = val
            yield c2, ops
    if config["model"]["cls"] != "Gaussian" and not any(
            o.get("op") == "assign_model" or str(o.get("param", "")).startswith("opt:")
            for o in ops):
        c2 = copy.deepcopy(config)
        c2["model"]["cls"] = "Gaussian"
        c2["model"]["opt"] = {}
        yield c2, ops
    g = config["gen"]
    if g["kind"] != "Fourier" and g["mode_no"] > 4:
        c2 = copy.deepcopy(config)
        c2["gen"]["mode_no"] = 4
        yield c2, ops
