"""Shared pieces of the engines: model catalogue, abstract spec -> fresh GSTools objects."""
import copy

import numpy as np

import gstools as gs

# model classes shipped by GSTools (name -> optional-argument value grids).
# Neighbouring grid values differ by >= 5 % (compare() uses np.isclose: smaller changes are
# "no change" by design).  Grids stay inside the default bounds for dims 1..3; values that
# depend on the dimension are given per dim.
MODELS = (
    "Gaussian", "Exponential", "Stable", "Matern", "Integral", "Rational", "Cubic",
    "Linear", "Circular", "Spherical", "HyperSpherical", "SuperSpherical", "JBessel",
    "TPLGaussian", "TPLExponential", "TPLStable", "TPLSimple",
)
FAST_MODELS = {("Gaussian", 1), ("Gaussian", 2), ("Exponential", 1), ("Exponential", 2)}
MAX_DIM = {"Linear": 1, "Circular": 2, "Spherical": 3}
# families in which an FP trap set by the caller actually trips (see DESIGN 11.4)
TRAP_PRONE = ["Stable", "TPLStable", "Rational"]


def opt_grid(name, dim):
    """Representative in-bounds values per optional argument."""
    if name == "Stable":
        return {"alpha": [0.8, 1.5, 2.0]}
    if name == "Matern":
        return {"nu": [0.5, 1.0, 2.5]}
    if name == "Integral":
        return {"nu": [0.5, 1.0, 3.0]}
    if name == "Rational":
        return {"alpha": [0.5, 1.0, 4.0]}
    if name == "SuperSpherical":
        lo = (dim - 1) / 2.0
        return {"nu": [lo, lo + 1.0, lo + 3.5]}
    if name == "JBessel":
        lo = dim / 2.0 - 1.0
        return {"nu": [lo + 0.5, lo + 1.0, lo + 3.0]}
    if name == "TPLGaussian":
        return {"hurst": [0.3, 0.5, 0.8], "len_low": [0.0, 0.2, 0.5]}
    if name == "TPLExponential":
        return {"hurst": [0.25, 0.5, 0.8], "len_low": [0.0, 0.2, 0.5]}
    if name == "TPLStable":
        return {"alpha": [0.8, 1.5, 2.0], "hurst": [0.3, 0.5, 0.8], "len_low": [0.0, 0.2, 0.5]}
    if name == "TPLSimple":
        lo = (dim + 1) / 2.0
        return {"nu": [lo, lo + 1.0, lo + 3.5]}
    return {}


VAR_GRID = [0.5, 1.0, 2.0, 3.7]
LEN_GRID = [0.7, 1.0, 2.5, 6.0]
ANIS_GRID = [0.25, 0.5, 1.0, 1.8]
ANGLE_GRID = [0.0, 0.4, 1.1, 2.5]
NUGGET_GRID = [0.0, 0.1, 0.5]


def n_angles(dim):
    return dim * (dim - 1) // 2


def valid_models(dim, allow_slow=True):
    out = []
    for m in MODELS:
        if dim > MAX_DIM.get(m, 99):
            continue
        if not allow_slow and (m, dim) not in FAST_MODELS:
            continue
        out.append(m)
    return out


def gen_model_spec(rng, dim, name=None, nugget=None, slow_share=0.15, rotate=True):
    if name is None:
        fast = [m for m in valid_models(dim) if (m, dim) in FAST_MODELS]
        slow = [m for m in valid_models(dim) if (m, dim) not in FAST_MODELS]
        if fast and (not slow or rng.random() >= slow_share):
            name = rng.choice(fast)
        else:
            name = rng.choice(slow)
    spec = {
        "cls": name,
        "dim": dim,
        "var": rng.choice(VAR_GRID),
        "len_scale": rng.choice(LEN_GRID),
        "anis": [rng.choice(ANIS_GRID) for _ in range(dim - 1)],
        "angles": [rng.choice(ANGLE_GRID) if rotate else 0.0 for _ in range(n_angles(dim))],
        "nugget": rng.choice(NUGGET_GRID) if nugget is None else nugget,
        "opt": {k: rng.choice(v) for k, v in sorted(opt_grid(name, dim).items())},
    }
    return spec


def build_model(spec):
    cls = getattr(gs, spec["cls"])
    kw = dict(
        dim=spec["dim"], var=spec["var"], len_scale=spec["len_scale"], nugget=spec["nugget"],
        anis=list(spec["anis"]) if spec["anis"] else 1.0,
        angles=list(spec["angles"]) if spec["angles"] else 0.0,
    )
    for k in ("latlon", "temporal", "geo_scale", "rescale"):
        if k in spec and spec[k] is not None:
            kw[k] = spec[k]
    kw.update(spec.get("opt", {}))
    return cls(**kw)


def is_slow(spec):
    return (spec["cls"], spec["dim"]) not in FAST_MODELS


def spec_copy(spec):
    return copy.deepcopy(spec)


class LinFn:
    """Harness-supplied mean / trend / drift callable: pure function of location.

    Can be armed to raise on its n-th invocation (callback_raise fault).
    """

    def __init__(self, coef, const, ctx=None, tag="fn"):
        self.coef = list(coef)
        self.const = const
        self.calls = 0
        self.raise_at = None
        self.ctx = ctx
        self.tag = tag

    def arm(self, n):
        self.raise_at = self.calls + n
        if self.ctx is not None:
            self.ctx.armed("callback_raise")

    def disarm(self):
        self.raise_at = None

    def __call__(self, *pos):
        self.calls += 1
        if self.raise_at is not None and self.calls >= self.raise_at:
            self.raise_at = None
            if self.ctx is not None:
                self.ctx.fired("callback_raise")
            raise CallbackFault(self.tag)
        out = self.const
        for c, p in zip(self.coef, pos):
            out = out + c * np.asarray(p, dtype=np.double)
        return out


class CallbackFault(RuntimeError):
    pass


def make_fn(desc, dim, ctx=None, tag="fn"):
    """desc: None | number | 'lin' -> value usable as mean/trend."""
    if desc == "lin":
        return LinFn([0.1 * (i + 1) for i in range(dim)], 0.3, ctx, tag)
    return desc


def make_normalizer(desc):
    if desc is None:
        return None
    if desc == "LogNormal":
        return gs.normalizer.LogNormal()
    if desc == "BoxCox":
        return gs.normalizer.BoxCox(lmbda=0.5)
    if desc == "YeoJohnson":
        return gs.normalizer.YeoJohnson(lmbda=0.7)
    raise ValueError(desc)


def pool_axes(rng, dim, lo=-3.0, hi=3.0, max_points=16):
    """Per-run location pool as a tensor grid (so that structured layouts exist).

    Coordinates lie on a 1e-2 lattice and differ by >= 1e-2 (``_pos_equal`` uses allclose).
    """
    per_axis = {1: [8], 2: [4, 4], 3: [2, 2, 3]}[dim]
    axes = []
    for n in per_axis:
        vals = set()
        while len(vals) < n:
            vals.add(round(rng.uniform(lo, hi), 2))
        axes.append(sorted(vals))
    return axes


def grid_points(axes):
    """All nodes of the tensor grid in C order ('ij' indexing), shape (dim, n)."""
    mesh = np.meshgrid(*[np.asarray(a, dtype=np.double) for a in axes], indexing="ij")
    return np.array([m.reshape(-1) for m in mesh])
