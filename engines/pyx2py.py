"""Translate the Cython kernels of the working tree into schedulable Python generators.

Two passes.
1. Line oriented: join bracketed logical lines, drop cimport / ctypedef, turn ``cdef`` function
   headers into ``def``, strip C types from signatures and declarations, remember which names
   are typed memory views.
2. AST: every function becomes a generator; every element load / store of a memory view is a
   scheduling point (``a[i] += e`` = load, yield, store: a non-atomic read-modify-write);
   ``prange`` / ``parallel`` become calls into the simulated OpenMP runtime with Cython's
   data-sharing rules (scalars assigned in the construct are thread private, in-place updated
   scalars are reductions, memory views are shared).

The Cython subset understood is the one the three kernel files use; anything else raises
``TranslationError`` (reported as HARNESS-ERROR, never as a pass or a violation).
"""
import ast
import re


class TranslationError(Exception):
    pass


BUILTIN_CALLS = {
    "range", "len", "max", "min", "abs", "int", "float", "bool", "isnan", "cos", "sin", "sqrt",
    "fabs", "acos", "atan2", "pow", "ValueError", "TypeError", "str", "print",
}
IDENT = r"[A-Za-z_][A-Za-z_0-9]*"


# ------------------------------------------------------------------------- pass 1: text


def _logical_lines(text):
    out = []
    buf = ""
    depth = 0
    for raw in text.split("\n"):
        line = raw.rstrip()
        code = _strip_comment(line)
        if not buf:
            buf = code
        else:
            buf += " " + code.strip()
        depth += _depth_delta(code)
        if depth <= 0 and not code.rstrip().endswith("\\"):
            out.append(buf)
            buf = ""
            depth = 0
    if buf:
        out.append(buf)
    return out


def _strip_comment(line):
    res = []
    q = None
    i = 0
    while i < len(line):
        c = line[i]
        if q:
            res.append(c)
            if c == q:
                q = None
        elif c in "'\"":
            q = c
            res.append(c)
        elif c == "#":
            break
        else:
            res.append(c)
        i += 1
    return "".join(res)


def _depth_delta(code):
    d = 0
    q = None
    for c in code:
        if q:
            if c == q:
                q = None
        elif c in "'\"":
            q = c
        elif c in "([{":
            d += 1
        elif c in ")]}":
            d -= 1
    return d


def _split_args(s):
    args, depth, cur, q = [], 0, "", None
    for c in s:
        if q:
            cur += c
            if c == q:
                q = None
            continue
        if c in "'\"":
            q = c
        if c in "([{":
            depth += 1
        elif c in ")]}":
            depth -= 1
        if c == "," and depth == 0:
            args.append(cur)
            cur = ""
        else:
            cur += c
    if cur.strip():
        args.append(cur)
    return [a.strip() for a in args if a.strip()]


def _arg(a):
    """'const double[:, :] pos' -> ('pos', True); "str t='m'" -> ("t='m'", False)"""
    default = None
    depth = 0
    for i, c in enumerate(a):
        if c in "([{":
            depth += 1
        elif c in ")]}":
            depth -= 1
        elif c == "=" and depth == 0:
            default = a[i + 1:].strip()
            a = a[:i].strip()
            break
    is_mv = "[:" in a
    m = re.search(r"(%s)\s*$" % IDENT, a)
    if not m:
        raise TranslationError("cannot parse argument %r" % a)
    name = m.group(1)
    return (name + ("=" + default if default is not None else "")), name, is_mv


def translate_text(text):
    """-> (python source, {function name: set of memory view names})"""
    lines = _logical_lines(text)
    out = []
    memviews = {}
    cur = None
    for line in lines:
        stripped = line.strip()
        indent = line[: len(line) - len(line.lstrip())]
        if not stripped:
            out.append("")
            continue
        if stripped.startswith(("cimport ", "from ")) and "cimport" in stripped:
            out.append(indent + "pass")
            continue
        if stripped in ("import numpy as np", "import numpy"):
            out.append(indent + "pass")  # the runtime supplies its own `np`
            continue
        if stripped.startswith("from cython.parallel import"):
            out.append(indent + "pass")
            continue
        if stripped.startswith("ctypedef "):
            out.append(indent + "pass")
            continue
        m = re.match(r"^(cdef|cpdef)\s+(inline\s+)?(.*?)(%s)\s*\((.*)\)\s*(nogil)?\s*:\s*$" % IDENT,
                     stripped)
        if m and not indent and "=" not in m.group(3):
            name = m.group(4)
            args = [_arg(a) for a in _split_args(m.group(5))]
            memviews[name] = {n for _, n, mv in args if mv}
            cur = name
            out.append("def %s(%s):" % (name, ", ".join(a for a, _, _ in args)))
            continue
        m = re.match(r"^def\s+(%s)\s*\((.*)\)\s*:\s*$" % IDENT, stripped)
        if m and not indent:
            name = m.group(1)
            args = [_arg(a) for a in _split_args(m.group(2))]
            memviews[name] = {n for _, n, mv in args if mv}
            cur = name
            out.append("def %s(%s):" % (name, ", ".join(a for a, _, _ in args)))
            continue
        if stripped.startswith("cdef "):
            decl = stripped[5:]
            # declaration with initialiser?
            depth, eq = 0, None
            for i, c in enumerate(decl):
                if c in "([{":
                    depth += 1
                elif c in ")]}":
                    depth -= 1
                elif c == "=" and depth == 0 and decl[i + 1: i + 2] != "=":
                    eq = i
                    break
            if eq is None:
                if "[:" in decl and cur:
                    m2 = re.search(r"(%s)\s*$" % IDENT, decl)
                    memviews[cur].add(m2.group(1))
                out.append(indent + "pass")
                continue
            lhs, rhs = decl[:eq].rstrip(), decl[eq + 1:].strip()
            m2 = re.search(r"(%s)\s*$" % IDENT, lhs)
            if not m2:
                raise TranslationError("cannot parse declaration %r" % stripped)
            if "[:" in lhs and cur:
                memviews[cur].add(m2.group(1))
            out.append(indent + "%s = %s" % (m2.group(1), rhs))
            continue
        if stripped.startswith("raise ValueError(f"):
            out.append(indent + "raise ValueError('kernel argument error')")
            continue
        out.append(line)
    return "\n".join(out) + "\n", memviews


# ------------------------------------------------------------------------- pass 2: AST


def _name(id_, ctx=None):
    return ast.Name(id=id_, ctx=ctx or ast.Load())


def _call(fn, args, kw=None):
    return ast.Call(func=fn, args=args, keywords=kw or [])


def _yf(expr):
    return ast.YieldFrom(value=expr)


class _Privatize(ast.NodeTransformer):
    def __init__(self, names):
        self.names = names

    def visit_Name(self, node):
        if node.id in self.names:
            return ast.copy_location(
                ast.Attribute(value=_name("_P"), attr=node.id, ctx=node.ctx), node)
        return node

    def visit_FunctionDef(self, node):  # nested work-sharing bodies share the thread's _P
        self.generic_visit(node)
        return node


def _target_names(t, acc):
    if isinstance(t, ast.Name):
        acc.add(t.id)
    elif isinstance(t, (ast.Tuple, ast.List)):
        for e in t.elts:
            _target_names(e, acc)


def _assigned_names(stmts):
    priv, red = set(), set()

    class V(ast.NodeVisitor):
        def visit_Assign(self, n):
            for t in n.targets:
                _target_names(t, priv)
            self.generic_visit(n)

        def visit_AugAssign(self, n):
            if isinstance(n.target, ast.Name):
                red.add(n.target.id)
            self.generic_visit(n)

        def visit_For(self, n):
            _target_names(n.target, priv)
            self.generic_visit(n)

    for s in stmts:
        V().visit(s)
    return priv, red


class _Kernel(ast.NodeTransformer):
    """Transform one function body."""

    def __init__(self, fname, memviews, module_funcs):
        self.fname = fname
        self.mv = set(memviews)
        self.module_funcs = module_funcs
        self.counter = 0
        self.in_region = False
        self.new_defs = []

    # ---- expressions
    def visit_Subscript(self, node):
        self.generic_visit(node)
        if isinstance(node.value, ast.Name) and node.value.id in self.mv and \
                isinstance(node.ctx, ast.Load) and not self._has_slice(node.slice):
            return ast.copy_location(
                _yf(_call(_name("_L"), [node.value, self._idx(node.slice)])), node)
        return node

    @staticmethod
    def _has_slice(sl):
        elts = sl.elts if isinstance(sl, ast.Tuple) else [sl]
        return any(isinstance(e, ast.Slice) for e in elts)

    @staticmethod
    def _idx(sl):
        if isinstance(sl, ast.Tuple):
            return ast.Tuple(elts=list(sl.elts), ctx=ast.Load())
        return ast.Tuple(elts=[sl], ctx=ast.Load())

    def visit_Call(self, node):
        self.generic_visit(node)
        f = node.func
        if isinstance(f, ast.Name) and f.id not in BUILTIN_CALLS and f.id not in (
                "prange", "parallel", "_L", "_S", "_CALL"):
            return ast.copy_location(
                _yf(_call(_name("_CALL"), [f] + node.args, node.keywords)), node)
        return node

    # ---- statements
    def visit_Assign(self, node):
        if len(node.targets) == 1 and self._is_cell(node.targets[0]):
            t = node.targets[0]
            val = self.visit(node.value)
            idx = self._idx(self._visit_idx(t.slice))
            return ast.copy_location(
                ast.Expr(value=_yf(_call(_name("_S"), [t.value, idx, val]))), node)
        self.generic_visit(node)
        return node

    def _visit_idx(self, sl):
        return self.visit(sl)

    def _is_cell(self, t):
        return isinstance(t, ast.Subscript) and isinstance(t.value, ast.Name) and \
            t.value.id in self.mv and not self._has_slice(t.slice)

    def visit_AugAssign(self, node):
        if self._is_cell(node.target):
            t = node.target
            self.counter += 1
            tmp_i, tmp_e, tmp_o = ("_ix%d" % self.counter, "_ev%d" % self.counter,
                                   "_ov%d" % self.counter)
            idx = self._idx(self._visit_idx(t.slice))
            val = self.visit(node.value)
            # the thread private temporaries live in the enclosing (private) namespace
            stmts = [
                ast.Assign(targets=[_name(tmp_i, ast.Store())], value=idx),
                ast.Assign(targets=[_name(tmp_e, ast.Store())], value=val),
                ast.Assign(targets=[_name(tmp_o, ast.Store())],
                           value=_yf(_call(_name("_L"), [t.value, _name(tmp_i)]))),
                ast.Expr(value=_yf(_call(_name("_S"), [
                    t.value, _name(tmp_i),
                    ast.BinOp(left=_name(tmp_o), op=node.op, right=_name(tmp_e))]))),
            ]
            return [ast.copy_location(s, node) for s in stmts]
        self.generic_visit(node)
        return node

    def visit_For(self, node):
        it = node.iter
        if isinstance(it, ast.Call) and isinstance(it.func, ast.Name) and it.func.id == "prange":
            return self._prange(node)
        self.generic_visit(node)
        return node

    def visit_With(self, node):
        items = node.items
        par = None
        for it in items:
            e = it.context_expr
            if isinstance(e, ast.Call) and isinstance(e.func, ast.Name) and e.func.id == "parallel":
                par = e
        if par is None:
            if all(isinstance(it.context_expr, ast.Name) and it.context_expr.id in ("nogil", "gil")
                   for it in items):
                self.generic_visit(node)
                return node.body
            raise TranslationError("unsupported with-statement in %s" % self.fname)
        if self.in_region:
            raise TranslationError("nested parallel regions")
        nthreads = None
        for kw in par.keywords:
            if kw.arg == "num_threads":
                nthreads = kw.value
        self.in_region = True
        body = []
        for s in node.body:
            r = self.visit(s)
            body.extend(r if isinstance(r, list) else [r])
        self.in_region = False
        priv, red = _assigned_names(body)
        priv = {n for n in (priv | red) if n not in self.mv}
        body = [_Privatize(priv).visit(s) for s in body]
        self.counter += 1
        fn = "_region%d" % self.counter
        fdef = ast.FunctionDef(
            name=fn, args=ast.arguments(posonlyargs=[], args=[ast.arg(arg="_P")], kwonlyargs=[],
                                        kw_defaults=[], defaults=[]),
            body=[ast.If(test=ast.Constant(value=False), body=[ast.Expr(value=ast.Yield())],
                         orelse=[])] + body, decorator_list=[], type_params=[])
        call = ast.Assign(
            targets=[_name("_ret", ast.Store())],
            value=_call(ast.Attribute(value=_name("_RT"), attr="parallel_region", ctx=ast.Load()),
                        [nthreads or ast.Constant(value=None), _name(fn),
                         ast.Constant(value=tuple(sorted(priv))),
                         ast.Constant(value="%s:region%d" % (self.fname, self.counter))]))
        return [ast.copy_location(fdef, node), ast.copy_location(call, node)]

    def _prange(self, node):
        it = node.iter
        if node.orelse:
            raise TranslationError("prange with else")
        pos = list(it.args)
        nthreads, nowait = None, False
        schedule, chunksize = None, ast.Constant(value=None)
        for kw in it.keywords:
            if kw.arg == "num_threads":
                nthreads = kw.value
            elif kw.arg == "nogil":
                pass
            elif kw.arg == "nowait":
                nowait = bool(getattr(kw.value, "value", False))
            elif kw.arg == "schedule":
                if not (isinstance(kw.value, ast.Constant) and kw.value.value in (
                        "static", "dynamic", "guided", "runtime", None)):
                    raise TranslationError("prange schedule must be a literal")
                schedule = kw.value.value
            elif kw.arg == "chunksize":
                chunksize = self.visit(kw.value)
            else:
                raise TranslationError("prange keyword %s" % kw.arg)
        if not isinstance(node.target, ast.Name):
            raise TranslationError("prange target")
        pos = [self.visit(p) for p in pos]
        was_region = self.in_region
        # body
        body = []
        for s in node.body:
            r = self.visit(s)
            body.extend(r if isinstance(r, list) else [r])
        priv, red = _assigned_names(body)
        tgt = node.target.id
        pure_red = sorted(n for n in red if n not in priv and n not in self.mv and n != tgt
                          and not n.startswith("_"))
        for n in pure_red:
            for sub in body:
                for a in ast.walk(sub):
                    if isinstance(a, ast.AugAssign) and isinstance(a.target, ast.Name) and \
                            a.target.id == n and not isinstance(a.op, (ast.Add, ast.Sub)):
                        raise TranslationError("reduction operator on %s not supported" % n)
        priv = {n for n in (priv | red | {tgt}) if n not in self.mv}
        reductions = sorted(n for n in red if n not in self.mv)
        self.counter += 1
        fn = "_pbody%d" % self.counter
        inner = [ast.Assign(targets=[ast.Attribute(value=_name("_P"), attr=tgt, ctx=ast.Store())],
                            value=_name("_it"))]
        loop = ast.For(target=_name("_once", ast.Store()),
                       iter=ast.Tuple(elts=[ast.Constant(value=0)], ctx=ast.Load()),
                       body=[_Privatize(priv).visit(s) for s in body] or [ast.Pass()],
                       orelse=[])
        fdef = ast.FunctionDef(
            name=fn,
            args=ast.arguments(posonlyargs=[], args=[ast.arg(arg="_P"), ast.arg(arg="_it")],
                               kwonlyargs=[], kw_defaults=[], defaults=[]),
            body=[ast.If(test=ast.Constant(value=False), body=[ast.Expr(value=ast.Yield())],
                         orelse=[])] + inner + [loop],
            decorator_list=[], type_params=[])
        rng = _call(_name("range"), pos)
        site = "%s:prange%d" % (self.fname, self.counter)
        if was_region:
            # work sharing loop inside a parallel region, executed by every thread of the team
            if pure_red:
                raise TranslationError("reduction in a work sharing loop not supported")
            stmt = ast.Expr(value=_yf(_call(
                ast.Attribute(value=_name("_RT"), attr="workshare", ctx=ast.Load()),
                [_name("_P"), ast.Constant(value=site), rng, _name(fn),
                 ast.Constant(value=nowait), ast.Constant(value=schedule), chunksize])))
            return [ast.copy_location(fdef, node), ast.copy_location(stmt, node)]
        call = ast.Assign(
            targets=[_name("_ret", ast.Store())],
            value=_call(ast.Attribute(value=_name("_RT"), attr="parallel_for", ctx=ast.Load()),
                        [rng, nthreads or ast.Constant(value=None), _name(fn),
                         ast.Constant(value=tuple(sorted(priv))), ast.Constant(value=tuple(reductions)),
                         ast.Constant(value=site), ast.Constant(value=schedule), chunksize]))
        post = []
        # pure reductions (only ever updated in place): original value + sum of the thread
        # local copies, combined in thread order
        for n in pure_red:
            post.append(ast.Assign(
                targets=[_name(n, ast.Store())],
                value=ast.BinOp(left=_name(n), op=ast.Add(), right=ast.Subscript(
                    value=ast.Subscript(value=_name("_ret"), slice=ast.Constant(value="__red__"),
                                        ctx=ast.Load()),
                    slice=ast.Constant(value=n), ctx=ast.Load()))))
        priv = priv - set(pure_red)
        # lastprivate values are visible after the loop (sequentially last iteration)
        for n in sorted(priv):
            post.append(ast.If(
                test=ast.Compare(left=ast.Constant(value=n), ops=[ast.In()],
                                 comparators=[_name("_ret")]),
                body=[ast.Assign(targets=[_name(n, ast.Store())],
                                 value=ast.Subscript(value=_name("_ret"),
                                                     slice=ast.Constant(value=n),
                                                     ctx=ast.Load()))],
                orelse=[]))
        return [ast.copy_location(s, node) for s in [fdef, call] + post]

    def visit_FunctionDef(self, node):
        return node  # nested defs are ours


def translate(text, module_name="kernel"):
    src, memviews = translate_text(text)
    try:
        tree = ast.parse(src)
    except SyntaxError as e:
        raise TranslationError("pass 1 produced invalid Python for %s: %s" % (module_name, e))
    funcs = [n.name for n in tree.body if isinstance(n, ast.FunctionDef)]
    for node in tree.body:
        if isinstance(node, ast.FunctionDef):
            k = _Kernel(node.name, memviews.get(node.name, ()), funcs)
            new_body = []
            for s in node.body:
                r = k.visit(s)
                new_body.extend(r if isinstance(r, list) else [r])
            node.body = [ast.If(test=ast.Constant(value=False),
                                body=[ast.Expr(value=ast.Yield())], orelse=[])] + new_body
    ast.fix_missing_locations(tree)
    return tree, src, memviews, funcs
