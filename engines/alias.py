"""C20 - operations never modify caller arrays or previously stored results.

Session machine: a few long-lived field objects plus the public array functions.  Every array
handed to GSTools comes from the harness allocator (aliasing-friendly or hostile layout) and
is entered in an ownership ledger with a byte digest; every array GSTools returns or stores is
entered too.  After every op each ledger entry that was not legitimately overwritten must be
bit-identical.
"""
import copy
import hashlib
import random

import numpy as np

import gstools as gs
from gstools.normalizer.tools import apply_mean_norm_trend, remove_trend_norm_mean

from sim.core import Violation, Inapplicable, HarnessError, jdump
from . import common as cm

NAME = "alias"
PROPERTY = "C20"
TIERS = {"quick": (10000, 90.0), "thorough": (400000, 1800.0)}
CHANGE_KINDS = {"call"}
OBSERVE_KINDS = {"call"}
RULE = ("one run = session of 3-12 public calls on long-lived Field / SRF / Krige / CondSRF "
        "objects and on the array functions (vario_estimate, vario_estimate_axis, "
        "standard_bins, fit_variogram, normalizer methods, apply_mean_norm_trend, "
        "remove_trend_norm_mean, transform.array_*, Field.transform, Krige.set_condition, "
        "CovModel position/lag functions); every argument array comes from the allocator in an "
        "aliasing-friendly (float64, C-contiguous, target shape) or hostile (list, float32, "
        "strided, int) layout; every returned/stored array is tracked. distinct = sequence of "
        "(entry point, variant, layout); non-trivial = at least two executed calls, i.e. some "
        "ledger entry existed while a later call ran")
COMPONENTS = {
    "real": ["gstools.field (Field, SRF, CondSRF)", "gstools.krige", "gstools.variogram",
             "gstools.normalizer", "gstools.transform", "gstools.covmodel (incl. fit)",
             "compiled kernels", "numpy", "scipy.optimize.curve_fit"],
    "stub": ["array allocator + ownership ledger", "user callables (LinFn, raise-on-nth-call)"],
}
ASSUMPTIONS = [
    "a stored result may change only when the current call explicitly stores under the same "
    "name on the same object (or re-stores it after a position change)",
    "init_guess / curve_fit_kwargs dictionaries are not arrays and are not tracked",
]


def is_nontrivial(ops):
    return sum(1 for o in ops if not o.get("_skipped")) >= 2


FNS = ["field_call", "srf_call", "krige_call", "condsrf_call", "transform", "set_condition",
       "extdrift", "universal", "mesh_call", "krige_fit", "model_ctor",
       "vario_estimate", "vario_axis", "standard_bins", "fit_variogram", "normalizer",
       "mean_norm_trend", "array_transform", "model_funcs", "rejected_call", "tools_funcs"]
TOOLS = ["exp_int", "inc_gamma", "inc_gamma_low", "inc_beta", "tplstable_cor", "tpl_exp_spec",
         "tpl_gau_spec", "generate_grid", "generate_st_grid", "ang2dir", "rotated_main_axes",
         "matrices", "latlon", "chordal", "transform_apply", "vtk"]
REJECTED = ["vario_field_shape", "vario_dir_dim", "vario_mask_shape", "krige_cond_len",
            "extdrift_len", "srf_pos_dim", "fit_len", "ctor_anis", "set_condition_len",
            "mnt_shape", "condsrf_pos_dim", "vario_axis_mask", "fit_bad_sill", "krige_bad_err"]
TRANSFORMS = ["binary", "discrete", "boxcox", "zinnharvey", "normal_force_moments",
              "normal_to_lognormal", "normal_to_uniform", "normal_to_arcsin", "normal_to_uquad",
              "function"]
ARRAY_TRANSFORMS = ["array_discrete", "array_boxcox", "array_zinnharvey", "array_force_moments",
                    "array_to_lognormal", "array_to_uniform", "array_to_arcsin",
                    "array_to_uquad"]
NORMALIZERS = ["LogNormal", "BoxCox", "BoxCoxShift", "YeoJohnson", "Modulus", "Manly"]
LAYOUTS = ["alias", "alias", "alias", "list", "f32", "strided", "fortran"]


def gen_config(rng):
    dim = rng.choice([1, 2, 2, 3])
    model = cm.gen_model_spec(rng, dim, name=rng.choice(["Gaussian", "Exponential"]),
                              nugget=rng.choice([0.0, 0.0, 0.1]), rotate=True)
    geo = rng.random() < 0.2
    if geo:
        # spatio-temporal lat-lon model: positions are (lat, lon, time)
        dim = 3
        model = {"cls": rng.choice(["Gaussian", "Exponential"]), "dim": 4,
                 "var": rng.choice(cm.VAR_GRID), "len_scale": rng.choice([0.3, 0.7, 1.0]),
                 "anis": [1.0, 1.0, rng.choice([0.25, 0.5, 1.0, 1.8])], "angles": [0.0] * 6,
                 "nugget": rng.choice([0.0, 0.1]), "opt": {}, "latlon": True, "temporal": True,
                 "geo_scale": rng.choice([1.0, 57.29577951308232])}
    cfg = {
        "geo": geo,
        "n_ops": rng.randint(3, 12), "dim": dim, "model": model,
        "mean": rng.choice([None, 0.0, 2.0, 2.0, "lin"]),
        "trend": rng.choice([None, None, 0.7, "lin"]),
        "normalizer": rng.choice([None, None, "LogNormal", "YeoJohnson"]),
        "seed": rng.choice([1, 42, 20170519]),
        "faults": rng.random() >= 0.4,
    }
    w = {f: 2 for f in FNS}
    w["transform"] = 4
    w["field_call"] = 3
    w["vario_estimate"] = 3
    for k in sorted(w):
        r = rng.random()
        if r < 0.2:
            w[k] = 0
        elif r > 0.85:
            w[k] *= 3
    if not any(w.values()):
        w["srf_call"] = 1
    cfg["weights"] = w
    return cfg


def digest(a):
    a = np.asarray(a)
    h = hashlib.sha1()
    h.update(str(a.dtype).encode() + str(a.shape).encode())
    h.update(np.ascontiguousarray(a).tobytes())
    return h.hexdigest()


class Entry:
    __slots__ = ("arr", "dig", "role", "site", "names", "kind")

    def __init__(self, arr, role, site, kind):
        self.arr = arr
        self.dig = digest(arr)
        self.role = role
        self.site = site
        self.names = set()
        self.kind = kind  # "caller" | "result"


class Machine:
    def __init__(self, config, ctx):
        self.cfg = config
        self.ctx = ctx
        self.dim = config["dim"]
        self.entries = []
        self.by_id = {}
        self.step = 0
        self.model = cm.build_model(config["model"])
        d = self.dim
        self.fns = {}
        self.linfns = []

        def mk(desc, tag):
            fn = cm.make_fn(desc, d, ctx, tag)
            if isinstance(fn, cm.LinFn):
                self.linfns.append(fn)
            return fn
        mean, trend = config["mean"], config["trend"]
        norm = config["normalizer"]
        self.field = gs.field.Field(dim=d, mean=mk(mean, "mean"), trend=mk(trend, "trend"),
                                    normalizer=cm.make_normalizer(norm))
        self.srf = gs.SRF(cm.build_model(config["model"]),
                          mean=mk(0.0 if mean is None else mean, "mean"),
                          trend=mk(trend, "trend"), normalizer=cm.make_normalizer(norm),
                          seed=config["seed"], mode_no=8)
        rs = random.Random(config["seed"])
        n = 5
        self.cond_pos0 = np.array([[round(rs.uniform(-3, 3), 2) for _ in range(n)]
                                   for _ in range(d)])
        self.cond_val0 = np.array([round(rs.uniform(0.5, 3), 3) for _ in range(n)])
        self.krige = gs.krige.Ordinary(cm.build_model(config["model"]), self.cond_pos0.copy(),
                                       self.cond_val0.copy(), trend=mk(trend, "trend"),
                                       normalizer=cm.make_normalizer(norm))
        self.cond = gs.CondSRF(
            gs.krige.Simple(cm.build_model(config["model"]), self.cond_pos0.copy(),
                            self.cond_val0.copy(), mean=1.0,
                            normalizer=cm.make_normalizer(norm)),
            seed=config["seed"], mode_no=8)
        self.objs = {"field": self.field, "srf": self.srf, "krige": self.krige,
                     "cond": self.cond, "cond.krige": self.cond.krige}
        self.targets = set()

    # ------------------------------------------------------------------ allocator + ledger
    def alloc(self, role, values, layout, site):
        """Return the object handed to GSTools; the harness keeps (and digests) it."""
        a = np.array(values, dtype=np.double)
        if layout == "alias":
            obj = np.ascontiguousarray(a)
        elif layout == "list":
            obj = a.tolist()
            self.ctx.probe("layout.hostile")
            return obj  # lists of floats: immutable leaves, nothing to alias
        elif layout == "f32":
            obj = a.astype(np.float32)
        elif layout == "strided":
            big = np.zeros(a.shape[:-1] + (a.shape[-1] * 2,) if a.ndim else (2,))
            if a.ndim:
                big[..., ::2] = a
                obj = big[..., ::2]
            else:
                obj = a
        elif layout == "fortran":
            obj = np.asfortranarray(a)
        else:
            raise HarnessError(layout)
        if layout == "alias":
            self.ctx.probe("layout.alias")
            self.ctx.fired("alias_layout")
        else:
            self.ctx.probe("layout.hostile")
        self.track(obj, role, site, "caller")
        return obj

    def track(self, arr, role, site, kind):
        if not isinstance(arr, np.ndarray):
            return
        if id(arr) in self.by_id and self.by_id[id(arr)].arr is arr:
            return self.by_id[id(arr)]
        e = Entry(arr, role, site, kind)
        self.entries.append(e)
        self.by_id[id(arr)] = e
        base = arr.base
        # a view handed out by the library: also watch what it is a view of
        while isinstance(base, np.ndarray):
            if id(base) not in self.by_id or self.by_id[id(base)].arr is not base:
                be = Entry(base, role + ".base", site, kind)
                self.entries.append(be)
                self.by_id[id(base)] = be
            base = base.base
        return e

    def scan_stored(self, site):
        """Enter every currently stored field; refresh which names each entry is stored as."""
        for e in self.entries:
            e.names = set()
        for oname, obj in self.objs.items():
            for fname in list(obj.field_names):
                arr = getattr(obj, fname, None)
                if isinstance(arr, np.ndarray):
                    e = self.track(arr, "stored:%s.%s" % (oname, fname), site, "result")
                    e = self.by_id[id(arr)]
                    e.names.add((oname, fname))

    def verify(self, site):
        for e in self.entries:
            d = digest(e.arr)
            if d != e.dig:
                legit = e.kind == "result" and any(n in self.targets for n in e.names)
                if legit:
                    e.dig = d
                    self.ctx.probe("legit_overwrite_in_place")
                    continue
                if e.kind == "caller":
                    raise Violation("C20.caller_array", role=e.role, passed_at=e.site,
                                    changed_at=site)
                raise Violation("C20.stored_result", role=e.role, created_at=e.site,
                                changed_at=site, stored_as=sorted(e.names))
        self.ctx.observations += 1

    # ------------------------------------------------------------------ op generation
    def gen_op(self, rng):
        w = self.cfg["weights"]
        names = sorted(k for k in w if w[k] > 0)
        if self.cfg.get("faults") and self.linfns and rng.random() < 0.12 \
                and not getattr(self, "force_observe", False):
            return {"fault": "callback_raise", "which": rng.randrange(len(self.linfns)),
                    "n": rng.randint(1, 2)}
        fn = rng.choices(names, [w[k] for k in names])[0]
        op = {"op": "call", "fn": fn, "layout": rng.choice(LAYOUTS),
              "vseed": rng.randint(0, 2 ** 31), "n": rng.randint(2, 7)}
        if fn in ("field_call", "srf_call", "krige_call", "condsrf_call"):
            op["store"] = rng.choice([True, False, "alt", "other"])
            op["mesh"] = rng.choice(["unstructured", "unstructured", "structured", "reuse"])
            op["post"] = rng.random() < 0.8
            if fn == "field_call":
                op["give_field"] = rng.random() < 0.8
        elif fn == "transform":
            op["target"] = rng.choice(["srf", "srf", "field", "krige", "cond"])
            op["method"] = rng.choice(TRANSFORMS)
            op["field"] = rng.choice(["field", "field", "alt", "other", "tr"])
            op["store"] = rng.choice([True, False, "tr", "tr2"])
            op["process"] = rng.random() < 0.6
            op["keep_mean"] = rng.random() < 0.5
        elif fn == "set_condition":
            op["target"] = rng.choice(["krige", "cond.krige"])
            op["what"] = rng.choice(["values", "pos_values", "cond_err"])
        elif fn == "vario_estimate":
            op["variant"] = rng.choice(["plain", "bins", "latlon", "latlon_bins", "masked",
                                        "directional", "normed", "structured", "sampled",
                                        "stacked", "no_data", "no_data", "masked_ma"])
        elif fn == "vario_axis":
            op["variant"] = rng.choice(["plain", "masked", "nan", "masked_nan", "masked_no_data",
                                        "no_data"])
        elif fn == "fit_variogram":
            op["variant"] = rng.choice(["plain", "weights", "directional", "sill"])
        elif fn == "normalizer":
            op["norm"] = rng.choice(NORMALIZERS)
            op["method"] = rng.choice(["normalize", "denormalize", "derivative",
                                       "loglikelihood", "fit", "likelihood"])
        elif fn == "mean_norm_trend":
            op["which"] = rng.choice(["apply", "remove"])
            op["stacked"] = rng.random() < 0.3
            op["check_shape"] = rng.random() < 0.7
            op["mesh"] = rng.choice(["unstructured", "structured"])
            op["mean"] = rng.choice([None, 2.0, "lin"])
            op["trend"] = rng.choice([None, 0.5, "lin"])
            op["norm"] = rng.choice([None, None, "LogNormal", "YeoJohnson"])
        elif fn == "array_transform":
            op["method"] = rng.choice(ARRAY_TRANSFORMS)
        elif fn == "rejected_call":
            op["what"] = rng.choice(REJECTED)
        elif fn == "tools_funcs":
            op["what"] = rng.choice(TOOLS)
        elif fn == "model_funcs":
            op["method"] = rng.choice(["isometrize", "anisometrize", "variogram", "covariance",
                                       "cov_spatial", "vario_spatial", "cov_nugget",
                                       "vario_axis", "spectrum"])
        return op

    # ------------------------------------------------------------------ execution
    def apply(self, op):
        if "fault" in op:
            if op["which"] >= len(self.linfns):
                raise Inapplicable("no such callable")
            self.linfns[op["which"]].arm(op["n"])
            return
        self.step += 1
        site = "%d:%s" % (self.step, op["fn"])
        for k in ("method", "variant", "which", "what"):
            if k in op:
                site += "." + str(op[k])
        self.targets = set()
        rs = random.Random(op["vseed"])
        try:
            getattr(self, "_c_" + op["fn"])(op, rs, site)
        except cm.CallbackFault:
            self.ctx.probe("call_failed_midway")
        finally:
            self.scan_stored(site)
        self.verify(site)

    # -- helpers
    def _vals(self, rs, shape, lo=-2.0, hi=2.0):
        n = int(np.prod(shape)) if shape else 1
        return np.array([round(rs.uniform(lo, hi), 3) for _ in range(n)]).reshape(shape)

    def _pos(self, op, rs, site, mesh, n=None, role="pos", lo=-3.0, hi=3.0):
        n = n or op["n"]
        d = self.dim
        lay = op["layout"]
        if self.cfg.get("geo") and (lo, hi) == (-3.0, 3.0):
            lo, hi = -60.0, 60.0  # degrees / time units
        if mesh == "structured":
            per = max(2, min(n, {1: 6, 2: 3, 3: 2}[d]))
            axes = []
            for _ in range(d):
                ax = sorted(set(round(rs.uniform(lo, hi), 2) for _ in range(per * 3)))[:per]
                axes.append(self.alloc(role, ax, lay, site))
            return axes, tuple(len(a) for a in axes)
        vals = self._vals(rs, (d, n), lo, hi)
        if lay == "alias" and rs.random() < 0.5:
            # tuple of 1-d arrays: the documented "position tuple"
            return tuple(self.alloc(role, vals[i], lay, site) for i in range(d)), (n,)
        return self.alloc(role, vals, lay, site), (n,)

    def _store_targets(self, oname, store, defaults):
        if store is False:
            return
        if isinstance(store, str):
            self.targets.add((oname, store))
            for dname in defaults[1:]:
                self.targets.add((oname, dname))
        else:
            for dname in defaults:
                self.targets.add((oname, dname))

    def _call_obj(self, op, rs, site, oname, defaults, extra=None):
        obj = self.objs[oname]
        mesh = op["mesh"]
        kw = {"post_process": op["post"], "store": op["store"]}
        kw.update(extra or {})
        self._store_targets(oname, op["store"], defaults)
        if mesh == "reuse":
            if obj.pos is None:
                raise Inapplicable("no pos")
            res = obj(**kw)
        else:
            pos, shape = self._pos(op, rs, site, mesh)
            res = obj(pos, mesh_type=mesh, **kw)
        for r in (res if isinstance(res, tuple) else (res,)):
            self.track(r, "returned:" + oname, site, "result")

    def _c_srf_call(self, op, rs, site):
        self._call_obj(op, rs, site, "srf", ["field"], {"seed": op["vseed"] % 1000})

    def _c_krige_call(self, op, rs, site):
        self._call_obj(op, rs, site, "krige", ["field", "krige_var"],
                       {"chunk_size": rs.choice([None, 2])})

    def _c_condsrf_call(self, op, rs, site):
        st = op["store"]
        self._store_targets("cond.krige", True, ["field", "krige_var"])
        self._call_obj(op, rs, site, "cond", ["field", "raw_field", "raw_krige"],
                       {"seed": op["vseed"] % 1000})

    def _c_field_call(self, op, rs, site):
        obj = self.field
        mesh = op["mesh"]
        kw = {"post_process": op["post"], "store": op["store"]}
        self._store_targets("field", op["store"], ["field"])
        if mesh == "reuse":
            if obj.pos is None:
                raise Inapplicable("no pos")
            shape = obj.field_shape
            pos = None
        else:
            pos, shape = self._pos(op, rs, site, mesh)
        if op.get("give_field"):
            lo = 0.5 if self.cfg["normalizer"] == "LogNormal" else -2.0
            kw["field"] = self.alloc("field", self._vals(rs, shape, lo, 3.0), op["layout"], site)
        res = obj(pos, mesh_type=mesh, **kw) if pos is not None else obj(**kw)
        self.track(res, "returned:field", site, "result")

    def _c_transform(self, op, rs, site):
        oname = op["target"]
        obj = self.objs[oname]
        fname = op["field"]
        if fname not in obj.field_names:
            raise Inapplicable("no stored field " + fname)
        method = op["method"]
        kw = {}
        if method == "function":
            kw["function"] = lambda x: np.asarray(x) * 2.0 + 1.0
        if method == "discrete":
            kw["store"] = None
            vals = rs.choice([[-1.0, 0.5, 2.0], [2.0, -1.0, 0.5], [0.5, 2.0, -1.0]])
            thr = rs.choice(["arithmetic", "arithmetic", "equal", "given"])
            if thr == "given":
                thr = self.alloc("thresholds", rs.choice([[-0.3, 0.8], [0.8, -0.3]]),
                                 op["layout"], site)
            kw = {"values": self.alloc("values", vals, op["layout"], site), "thresholds": thr}
        if method == "binary":
            kw = {"divide": rs.choice([None, 0.2])}
        if method == "boxcox":
            kw = {"lmbda": rs.choice([1, 0.5]), "shift": 5.0}
        if method == "zinnharvey":
            kw = {"conn": rs.choice(["high", "low"])}
        if method == "normal_force_moments":
            method = "force_moments"
        store = op["store"]
        name = fname if store is True else store
        if store is not False:
            self.targets.add((oname, name))
        try:
            res = obj.transform(method, field=fname, store=store, process=op["process"],
                                keep_mean=op["keep_mean"], **kw)
        except (ValueError, TypeError, AttributeError) as e:
            # e.g. "need a normal field", a Field without model has no sill, log of negative values: not an aliasing matter,
            # but whatever the call did before raising is still subject to the ledger
            self.ctx.probe("transform_refused")
            return
        self.track(res, "returned:transform", site, "result")

    def _c_set_condition(self, op, rs, site):
        try:
            self._set_condition(op, rs, site)
        except ValueError:
            # e.g. number of measurement errors left inconsistent by an earlier refused call:
            # not an aliasing matter, the ledger is checked all the same
            self.ctx.probe("set_condition_refused")

    def _set_condition(self, op, rs, site):
        kr = self.objs[op["target"]]
        n = kr.cond_no
        lay = op["layout"]
        what = op["what"]
        if what == "values":
            kr.set_condition(cond_val=self.alloc("cond_val", self._vals(rs, (n,), 0.5, 3.0),
                                                 lay, site))
        elif what == "pos_values":
            m = rs.randint(3, 6)
            if np.size(kr.cond_err) > 1:
                m = n  # a vector of measurement errors fixes the number of conditions
            kr.set_condition(
                cond_pos=self.alloc("cond_pos", self._vals(rs, (self.dim, m), -3, 3), lay, site),
                cond_val=self.alloc("cond_val", self._vals(rs, (m,), 0.5, 3.0), lay, site))
        else:
            kr.set_condition(cond_err=self.alloc("cond_err", self._vals(rs, (n,), 0.0, 0.1),
                                                 lay, site))

    def _c_model_ctor(self, op, rs, site):
        """Covariance models constructed from / assigned caller-owned parameter arrays
        (anis, angles, len_scale lists) in every flavour that rewrites some of them."""
        lay = op["layout"]
        flavor = rs.choice(["plain", "temporal", "latlon", "latlon_temporal"])
        dim = rs.choice([2, 3, 4]) if not flavor.startswith("latlon") else (
            3 + int(flavor.endswith("temporal")))
        if flavor == "temporal":
            dim = rs.choice([3, 4])
        n_ang = dim * (dim - 1) // 2
        anis = self.alloc("anis", self._vals(rs, (dim - 1,), 0.3, 2.0), lay, site)
        angles = self.alloc("angles", self._vals(rs, (n_ang,), 0.1, 2.0), lay, site)
        lens = self.alloc("len_scale", self._vals(rs, (dim,), 0.5, 3.0), lay, site)
        kw = {"latlon": flavor.startswith("latlon"), "temporal": flavor.endswith("temporal")}
        cls = rs.choice([gs.Gaussian, gs.Exponential, gs.Stable])
        how = rs.choice(["ctor_anis", "ctor_lens", "setters"])
        if how == "ctor_anis":
            cls(dim=dim, anis=anis, angles=angles, **kw)
        elif how == "ctor_lens":
            cls(dim=dim, len_scale=lens, angles=angles, **kw)
        else:
            m = cls(dim=dim, **kw)
            m.anis = anis
            m.angles = angles
            m.len_scale = lens
            m.dim = max(2 + int(kw["temporal"]), dim - 1) if not kw["latlon"] else dim
        self.ctx.probe("model_ctor." + flavor)

    def _c_extdrift(self, op, rs, site):
        """External drift kriging: drift arrays at the conditions and at the targets."""
        if self.cfg.get("geo"):
            raise Inapplicable("cartesian example")
        lay = op["layout"]
        d = self.dim
        n = 5
        cpos = self.alloc("cond_pos", self._vals(rs, (d, n), -3, 3), lay, site)
        cval = self.alloc("cond_val", self._vals(rs, (n,), 0.5, 3.0), lay, site)
        cdrift = self.alloc("ext_drift", self._vals(rs, (n,), -1, 1), lay, site)
        kr = gs.krige.ExtDrift(cm.build_model(self.cfg["model"]), cpos, cval, cdrift)
        m = op["n"]
        pos = self.alloc("pos", self._vals(rs, (d, m), -3, 3), lay, site)
        tdrift = self.alloc("ext_drift", self._vals(rs, (m,), -1, 1), lay, site)
        res = kr(pos, ext_drift=tdrift, chunk_size=rs.choice([None, 2]))
        for r in res:
            self.track(r, "returned:extdrift", site, "result")
        if rs.random() < 0.5:
            cs = gs.CondSRF(kr, seed=3, mode_no=6)
            r2 = cs(pos, ext_drift=tdrift)
            self.track(r2, "returned:condsrf_extdrift", site, "result")
        if rs.random() < 0.5:
            # structured targets: the drift comes in grid shape (a map), or with a leading axis
            axes, shape = self._pos(op, rs, site, "structured")
            gshape = shape if rs.random() < 0.7 else (1,) + tuple(shape)
            gdrift = self.alloc("ext_drift", self._vals(rs, gshape, -1, 1), lay, site)
            r3 = kr(axes, mesh_type="structured", ext_drift=gdrift, return_var=rs.random() < 0.5)
            for r in (r3 if isinstance(r3, tuple) else (r3,)):
                self.track(r, "returned:extdrift_structured", site, "result")

    def _c_universal(self, op, rs, site):
        """Universal kriging: polynomial / callable drift terms are evaluated at the caller's
        conditioning and target positions."""
        if self.cfg.get("geo"):
            raise Inapplicable("cartesian example")
        lay = op["layout"]
        d = self.dim
        n = 8 if d < 3 else 12
        cpos = self.alloc("cond_pos", self._vals(rs, (d, n), -3, 3), lay, site)
        cval = self.alloc("cond_val", self._vals(rs, (n,), 0.5, 3.0), lay, site)
        drift = rs.choice(["linear", "quadratic", 2, 1, "fn"])
        if drift == "fn":
            drift = [cm.make_fn("lin", d), lambda *x: x[0] * x[-1]]
        if drift in ("quadratic", 2) and d == 3:
            drift = "linear"   # keep the system small
        try:
            kr = gs.krige.Universal(cm.build_model(self.cfg["model"]), cpos, cval, drift)
            pos = self.alloc("pos", self._vals(rs, (d, op["n"]), -3, 3), lay, site)
            res = kr(pos, chunk_size=rs.choice([None, 2]))
            for r in res:
                self.track(r, "returned:universal", site, "result")
            if rs.random() < 0.5:
                kr.set_condition()
                r2 = kr(pos, return_var=False)
                self.track(r2, "returned:universal", site, "result")
        except (np.linalg.LinAlgError, ValueError):
            self.ctx.probe("universal_refused")

    def _c_mesh_call(self, op, rs, site):
        """Generation on a meshio mesh (mesh.points is a caller array) with point volumes."""
        if self.cfg.get("geo"):
            raise Inapplicable("cartesian example")
        import meshio
        d = self.dim
        n = max(3, op["n"])
        pts = np.zeros((n, 3))
        pts[:, :d] = self._vals(rs, (n, d), -3, 3)
        pts = self.alloc("mesh.points", pts, "alias", site)
        cells = [("line", np.array([[i, i + 1] for i in range(n - 1)]))]
        self.track(cells[0][1], "mesh.cells", site, "caller")
        mesh = meshio.Mesh(pts, cells)
        self.track(mesh.points, "mesh.points", site, "caller")
        direction = ["x", "xy", "xyz"][d - 1]
        where = rs.choice(["points", "centroids"])
        kw = {}
        if rs.random() < 0.5:
            cnt = n if where == "points" else n - 1
            lay = op["layout"] if op["layout"] != "list" else "alias"  # documented: ndarray
            kw["point_volumes"] = self.alloc("point_volumes", self._vals(rs, (cnt,), 0.1, 2.0),
                                             lay, site)
            self.srf.upscaling = "coarse_graining"
        try:
            res = self.srf.mesh(mesh, points=where, direction=direction, name="f", seed=5,
                                **kw)
        finally:
            self.srf.upscaling = "no_scaling"
        self._store_targets("srf", True, ["field"])
        self.track(res, "returned:mesh", site, "result")

    def _c_krige_fit(self, op, rs, site):
        """Kriging setup that fits normalizer / variogram to the given conditions."""
        if self.cfg.get("geo"):
            raise Inapplicable("cartesian example")
        lay = op["layout"]
        d = self.dim
        n = 12
        cpos = self.alloc("cond_pos", self._vals(rs, (d, n), -4, 4), lay, site)
        cval = self.alloc("cond_val", self._vals(rs, (n,), 0.5, 3.0), lay, site)
        model = gs.Exponential(dim=d, var=1.0, len_scale=2.0)
        try:
            gs.krige.Ordinary(model, cpos, cval, normalizer=gs.normalizer.BoxCox(),
                              fit_normalizer=rs.random() < 0.7, fit_variogram=rs.random() < 0.7)
        except (ValueError, RuntimeError):
            self.ctx.probe("krige_fit_refused")

    def _c_vario_estimate(self, op, rs, site):
        v = op["variant"]
        lay = op["layout"]
        n = op["n"] + 4
        d = self.dim
        kw = {}
        latlon = v.startswith("latlon")
        if latlon:
            pos = self.alloc("pos", np.array([self._vals(rs, (n,), -60, 60),
                                              self._vals(rs, (n,), -170, 170)]), lay, site)
            kw["latlon"] = True
            kw["geo_scale"] = rs.choice([gs.KM_SCALE, gs.DEGREE_SCALE, 1.0])
            shape = (n,)
            mesh = "unstructured"
        elif v == "structured":
            pos, shape = self._pos(op, rs, site, "structured", n=4)
            mesh = "structured"
            kw["mesh_type"] = "structured"
        else:
            pos, shape = self._pos(op, rs, site, "unstructured", n=n)
            mesh = "unstructured"
        fvals = self._vals(rs, shape, 0.5, 3.0)
        if v == "no_data":
            marker = rs.choice([-999.0, 0.0, 1.0])
            fvals.flat[rs.randrange(fvals.size)] = marker
            fvals.flat[0] = marker
            kw["no_data"] = marker
        if v == "stacked":
            field = self.alloc("field", np.array([fvals, fvals * 0.5 + 1]), lay, site)
        else:
            field = self.alloc("field", fvals, lay, site)
        if v in ("bins", "latlon_bins", "directional", "masked"):
            if latlon:
                top = {gs.KM_SCALE: 9000.0, gs.DEGREE_SCALE: 90.0, 1.0: 1.5}[kw["geo_scale"]]
            else:
                top = 5.0
            edges = np.linspace(0.0, top, rs.randint(3, 6))
            kw["bin_edges"] = self.alloc("bin_edges", edges, lay, site)
        if v == "masked_ma":
            # the field itself is a masked array (own mask) AND a mask argument is given
            own = np.zeros(shape, dtype=bool)
            own.flat[1 % own.size] = True
            self.track(own, "field.mask", site, "caller")
            data = field if isinstance(field, np.ndarray) else np.array(fvals)
            field = np.ma.array(data, mask=own)
            self.track(field.mask, "field.mask", site, "caller")
            mask = np.zeros(shape, dtype=bool)
            mask.flat[-2 % mask.size] = True
            kw["mask"] = mask
            self.track(mask, "mask", site, "caller")
        if v == "masked":
            mask = np.array([rs.random() < 0.3 for _ in range(int(np.prod(shape)))]).reshape(shape)
            mask.flat[0] = False
            mask.flat[-1] = False
            kw["mask"] = mask
            self.track(mask, "mask", site, "caller")
        if v == "directional" and d > 1:
            dirs = np.eye(d)[: rs.randint(1, d)] * rs.choice([1.0, 3.0, 0.25])
            if rs.random() < 0.5:
                dirs = dirs + 0.5 * rs.choice([1.0, -1.0])  # oblique, not unit length
            kw["direction"] = self.alloc("direction", dirs, lay, site)
            kw["bandwidth"] = rs.choice([None, 2.0])
        if v == "normed":
            kw["mean"] = rs.choice([1.0, cm.make_fn("lin", d)])
            kw["trend"] = rs.choice([None, 0.3, cm.make_fn("lin", d)])
            kw["normalizer"] = rs.choice([None, gs.normalizer.LogNormal()])
            kw["fit_normalizer"] = False
        if v == "sampled":
            kw["sampling_size"] = max(2, n - 2)
            kw["sampling_seed"] = 7
        kw["return_counts"] = rs.random() < 0.5
        res = gs.vario_estimate(pos, field, **kw)
        for r in res:
            self.track(r, "returned:vario_estimate", site, "result")

    def _c_vario_axis(self, op, rs, site):
        v = op["variant"]
        d = self.dim
        shape = {1: (op["n"] + 3,), 2: (4, 3), 3: (3, 2, 3)}[d]
        vals = self._vals(rs, shape, 0.5, 3.0)
        kw = {}
        if v in ("nan", "masked_nan"):
            vals.flat[1] = np.nan
        if v in ("no_data", "masked_no_data"):
            vals.flat[1] = -999.0
            kw["no_data"] = -999.0
        if v.startswith("masked"):
            mask = np.zeros(shape, dtype=bool)
            mask.flat[2] = True
            field = np.ma.array(self.alloc("field", vals, op["layout"], site)
                                if op["layout"] != "list" else vals, mask=mask)
            self.track(field.data, "field.ma", site, "caller")
            self.track(mask, "mask", site, "caller")
        else:
            field = self.alloc("field", vals, op["layout"], site)
        res = gs.vario_estimate_axis(field, direction=rs.choice(["x", "y", "z"][:d]),
                                     estimator=rs.choice(["matheron", "cressie"]), **kw)
        self.track(res, "returned:vario_axis", site, "result")

    def _c_standard_bins(self, op, rs, site):
        latlon = rs.random() < 0.3 and self.dim == 2
        if latlon:
            pos = self.alloc("pos", np.array([self._vals(rs, (6,), -60, 60),
                                              self._vals(rs, (6,), -170, 170)]), op["layout"],
                             site)
            res = gs.standard_bins(pos, dim=2, latlon=True, geo_scale=gs.KM_SCALE)
        else:
            pos, shape = self._pos(op, rs, site, "unstructured", n=6)
            res = gs.standard_bins(pos, dim=self.dim, max_dist=rs.choice([None, 4.0]))
        self.track(res, "returned:standard_bins", site, "result")

    def _c_fit_variogram(self, op, rs, site):
        v = op["variant"]
        lay = op["layout"]
        m = cm.build_model(self.cfg["model"])
        x = np.linspace(0.2, 6.0, 8)
        if self.cfg.get("geo"):
            x = np.linspace(0.05, 2.5, 8) * self.cfg["model"]["geo_scale"]
        kw = {}
        if v == "directional" and self.dim > 1 and not self.cfg.get("geo"):
            y = np.array([m.vario_axis(x, axis=i) for i in range(self.dim)])
        else:
            y = m.variogram(x)
        y = y * (1 + 0.01 * self._vals(rs, y.shape, -1, 1))
        xa = self.alloc("x_data", x, lay, site)
        ya = self.alloc("y_data", y, lay, site)
        if v == "weights":
            wv = self._vals(rs, (8,), 0.5, 2.0)
            if rs.random() < 0.5:
                wv[rs.randrange(8)] = 0.0   # an excluded bin
            kw["weights"] = self.alloc("weights", wv, lay, site)
            if lay == "list":
                kw["weights"] = np.array(kw["weights"])  # documented: ndarray
        if v == "sill":
            kw["sill"] = float(m.sill)
        kw["nugget"] = rs.choice([True, False])
        m2 = cm.build_model(self.cfg["model"])
        try:
            res = m2.fit_variogram(xa, ya, return_r2=True, **kw)
        except (RuntimeError, ValueError):
            # optimizer did not converge / refused: not an aliasing matter, ledger still checked
            self.ctx.probe("fit_refused")
            return
        self.track(res[1], "returned:pcov", site, "result")

    def _c_normalizer(self, op, rs, site):
        cls = getattr(gs.normalizer, op["norm"])
        norm = cls()
        data = self.alloc("data", self._vals(rs, (op["n"] + 2,), 0.5, 3.0), op["layout"], site)
        method = op["method"]
        if method == "fit":
            norm.fit(data)
            return
        res = getattr(norm, method)(data)
        self.track(res, "returned:normalizer." + method, site, "result")

    def _c_mean_norm_trend(self, op, rs, site):
        d = self.dim
        mesh = op["mesh"]
        lay = op["layout"]
        pos, shape = self._pos(op, rs, site, mesh)
        lo = 0.5 if op["norm"] == "LogNormal" else -2.0
        stacked = op["stacked"]
        if stacked:
            vals = np.array([self._vals(rs, shape, lo, 3.0), self._vals(rs, shape, lo, 3.0)])
        else:
            vals = self._vals(rs, shape, lo, 3.0)
        field = self.alloc("field", vals, lay, site)
        if lay == "list":
            if op["check_shape"]:
                raise Inapplicable("check_shape needs an array (field.shape)")
            field = np.array(field)  # documented type is ndarray: hostile = fresh copy
        kw = dict(mean=cm.make_fn(op["mean"], d), trend=cm.make_fn(op["trend"], d),
                  normalizer=cm.make_normalizer(op["norm"]), mesh_type=mesh, stacked=stacked,
                  check_shape=op["check_shape"])
        if not op["check_shape"]:
            # without shape check pos/field must already be formatted
            if mesh == "structured":
                pos = [np.asarray(p, dtype=np.double) for p in pos]
            else:
                pos = np.asarray(pos, dtype=np.double).reshape(d, -1)
            if not isinstance(field, np.ndarray) or field.dtype != np.double:
                raise Inapplicable("unformatted field without shape check")
        fnc = apply_mean_norm_trend if op["which"] == "apply" else remove_trend_norm_mean
        res = fnc(pos, field, **kw)
        self.track(res, "returned:" + op["which"], site, "result")

    def _c_array_transform(self, op, rs, site):
        fn = getattr(gs.transform, op["method"])
        vals = self._vals(rs, (op["n"] + 2,), 0.5, 3.0)
        if op["method"] in ("array_force_moments", "array_zinnharvey", "array_to_uniform",
                            "array_to_arcsin", "array_to_uquad") and rs.random() < 0.4:
            # centred data: the arithmetic mean is exactly 0
            half = [float(k) * rs.choice([0.5, 1.0, 2.0]) for k in range(1, op["n"] // 2 + 2)]
            vals = np.array([-v for v in reversed(half)] + [0.0] + half)
        data = self.alloc("field", vals, op["layout"], site)
        kw = {}
        if op["method"] == "array_discrete":
            # class values in no particular order; explicit thresholds are a caller array too
            vals = rs.choice([[-1.0, 0.5, 2.0], [2.0, -1.0, 0.5], [0.5, 2.0, -1.0]])
            thr = rs.choice(["arithmetic", "arithmetic", "equal", "given"])
            if thr == "given":
                thr = self.alloc("thresholds", rs.choice([[0.9, 1.8], [1.8, 0.9]]),
                                 op["layout"], site)
            kw = {"values": self.alloc("values", vals, op["layout"], site), "thresholds": thr}
        if op["method"] == "array_boxcox":
            kw = {"lmbda": 0.5, "shift": 1.0}
        try:
            res = fn(data, **kw)
        except ValueError:
            # e.g. thresholds not ascending: refused, the ledger is still checked
            self.ctx.probe("array_transform_refused")
            return
        self.track(res, "returned:" + op["method"], site, "result")

    def _c_rejected_call(self, op, rs, site):
        """A call that the library refuses (inconsistent arguments): whatever it did to the
        caller's arrays before raising counts just as much as in a successful call."""
        w = op["what"]
        lay = op["layout"]
        d = self.dim
        n = op["n"] + 3
        geo = bool(self.cfg.get("geo"))
        A = lambda role, vals: self.alloc(role, vals, lay, site)
        model = cm.build_model(self.cfg["model"])
        # how a call is refused is not an aliasing matter (lists where arrays are documented
        # stumble with AttributeError): only the ledger counts here
        refused = (ValueError, TypeError, IndexError, RuntimeError, AttributeError, KeyError,
                   np.linalg.LinAlgError)
        try:
            if w in ("vario_field_shape", "vario_dir_dim", "vario_mask_shape"):
                if geo:
                    raise Inapplicable("cartesian example")
                pos = A("pos", self._vals(rs, (d, n), -3, 3))
                m = n + 1 if w == "vario_field_shape" else n
                field = A("field", self._vals(rs, (m,), 0.5, 3.0))
                kw = {"bin_edges": A("bin_edges", np.linspace(0.0, 5.0, 5))}
                if d > 1:
                    cols = d + 1 if w == "vario_dir_dim" else d
                    kw["direction"] = A("direction", self._vals(rs, (2, cols), 0.5, 2.0))
                elif w == "vario_dir_dim":
                    raise Inapplicable("needs dim > 1")
                mask = np.zeros(n + 2 if w == "vario_mask_shape" else m, dtype=bool)
                mask[1] = True
                self.track(mask, "mask", site, "caller")
                kw["mask"] = mask
                kw["mean"] = 1.0
                kw["trend"] = cm.make_fn("lin", d)
                gs.vario_estimate(pos, field, **kw)
            elif w == "vario_axis_mask":
                f = self._vals(rs, (4, 5), 0.5, 3.0)
                f[0, 0] = np.nan
                field = A("field", f)
                mask = np.zeros((5, 4), dtype=bool)  # transposed: does not fit
                self.track(mask, "mask", site, "caller")
                gs.vario_estimate_axis(np.ma.array(field if isinstance(field, np.ndarray)
                                                   else f, mask=mask.T.copy()), "y",
                                       no_data=rs.choice([np.nan, 1.0]))
                gs.vario_estimate_axis(field, "z")   # no such axis in 2-d
            elif w in ("krige_cond_len", "krige_bad_err"):
                cpos = A("cond_pos", self._vals(rs, (d, n), -3, 3))
                short = w == "krige_cond_len"
                cval = A("cond_val", self._vals(rs, (n - 1 if short else n,), 0.5, 3.0))
                cerr = A("cond_err", self._vals(rs, (n if short else n + 2,), 0.0, 0.1))
                gs.krige.Ordinary(model, cpos, cval, cond_err=cerr, exact=False,
                                  trend=cm.make_fn("lin", d),
                                  normalizer=gs.normalizer.LogNormal())
            elif w == "extdrift_len":
                if geo:
                    raise Inapplicable("cartesian example")
                cpos = A("cond_pos", self._vals(rs, (d, 5), -3, 3))
                cval = A("cond_val", self._vals(rs, (5,), 0.5, 3.0))
                cdr = A("ext_drift", self._vals(rs, (5,), -1, 1))
                kr = gs.krige.ExtDrift(model, cpos, cval, cdr)
                pos = A("pos", self._vals(rs, (d, n), -3, 3))
                tdr = A("ext_drift", self._vals(rs, (n + 1,), -1, 1))
                kr(pos, ext_drift=tdr)
            elif w in ("srf_pos_dim", "condsrf_pos_dim"):
                obj = self.srf if w == "srf_pos_dim" else self.cond
                pos = A("pos", self._vals(rs, (d + 1, n), -3, 3))
                obj(pos, store=False)
            elif w in ("fit_len", "fit_bad_sill"):
                x = A("x_data", np.linspace(0.5, 8.0, 8))
                y = A("y_data", self._vals(rs, (7 if w == "fit_len" else 8,), 0.2, 1.0))
                wts = A("weights", self._vals(rs, (8,), 0.5, 1.0))
                kw = {"weights": np.array(wts)}
                if w == "fit_bad_sill":
                    kw["sill"] = -1.0
                    kw["nugget"] = 0.5
                model.fit_variogram(x, y, **kw)
            elif w == "ctor_anis":
                if d == 1 or geo:
                    raise Inapplicable("needs plain dim > 1")
                anis = A("anis", [-1.0] + [0.5] * (d - 2))
                ang = A("angles", self._vals(rs, (cm.n_angles(d),), 0.0, 1.0))
                ls = A("len_scale", self._vals(rs, (d,), 0.5, 2.0))
                getattr(gs, self.cfg["model"]["cls"])(dim=d, len_scale=ls, anis=anis, angles=ang)
            elif w == "set_condition_len":
                kr = self.objs[rs.choice(["krige", "cond.krige"])]
                m = kr.cond_no
                kr.set_condition(cond_pos=A("cond_pos", self._vals(rs, (d, m), -3, 3)),
                                 cond_val=A("cond_val", self._vals(rs, (m + 1,), 0.5, 3.0)))
            elif w == "mnt_shape":
                pos = A("pos", self._vals(rs, (d, n), -3, 3))
                field = A("field", self._vals(rs, (n + 1,), 0.5, 3.0))
                from gstools.normalizer import apply_mean_norm_trend, remove_trend_norm_mean
                fn = rs.choice([apply_mean_norm_trend, remove_trend_norm_mean])
                fn(pos, field, mean=2.0, trend=cm.make_fn("lin", d),
                   normalizer=gs.normalizer.YeoJohnson(), check_shape=True)
            else:
                raise HarnessError("rejected_call " + w)
        except refused:
            self.ctx.probe("rejected_call.refused")
        else:
            self.ctx.probe("rejected_call.accepted")
        finally:
            if w in ("srf_pos_dim", "condsrf_pos_dim"):
                # a refused position tuple may be half taken over (not an aliasing matter):
                # the user continues with a valid call, so that "reuse" has positions again
                obj = self.srf if w == "srf_pos_dim" else self.cond
                obj(self._vals(rs, (d, 3), -3, 3), store=False)
            if w == "set_condition_len":
                # leave the shared kriging objects usable for the rest of the history
                for name in ("krige", "cond.krige"):
                    try:
                        self.objs[name].set_condition(cond_pos=self.cond_pos0.copy(),
                                                      cond_val=self.cond_val0.copy(),
                                                      cond_err="nugget")
                    except refused:
                        pass

    def _c_tools_funcs(self, op, rs, site):
        """Public helpers that take arrays: special functions, grids, rotations, coordinate
        conversions, transform.apply on a plain Field, in-memory vtk conversion."""
        from gstools import tools as T
        from gstools.tools import geometric as G
        w = op["what"]
        lay = op["layout"]
        n = op["n"] + 2
        A = lambda role, vals: self.alloc(role, vals, lay, site)
        out = []
        if w in ("exp_int", "inc_gamma", "inc_gamma_low"):
            x = A("x", self._vals(rs, (n,), 0.0, 60.0))     # both branches (x < 50, x >= 50)
            s_ = rs.choice([0.5, 1.0, 2.5])   # documented: float
            out.append(getattr(T, w)(s_, np.array(x) if lay == "list" else x))
        elif w == "inc_beta":
            x = A("x", self._vals(rs, (n,), 0.0, 1.0))
            out.append(T.inc_beta(1.5, 0.7, np.array(x) if lay == "list" else x))
        elif w == "tplstable_cor":
            r = A("r", [0.0] + self._vals(rs, (n,), 0.0, 9.0).tolist())
            out.append(T.tplstable_cor(np.array(r) if lay == "list" else r, 2.0, 0.5,
                                       rs.choice([1.0, 2.0])))
        elif w in ("tpl_exp_spec", "tpl_gau_spec"):
            k = A("k", self._vals(rs, (n,), 0.0, 5.0))
            fn = T.tpl_exp_spec_dens if w == "tpl_exp_spec" else T.tpl_gau_spec_dens
            out.append(fn(np.array(k) if lay == "list" else k, rs.choice([1, 2, 3]), 2.0, 0.5,
                          rs.choice([0.0, 0.3])))
        elif w == "generate_grid":
            axes = [A("pos", sorted(self._vals(rs, (rs.randint(1, 4),), -3, 3).tolist()))
                    for _ in range(self.dim)]
            out.append(T.generate_grid(axes))
        elif w == "generate_st_grid":
            mesh = rs.choice(["unstructured", "structured"])
            t = A("time", sorted(self._vals(rs, (3,), 0, 5).tolist()))
            if mesh == "structured":
                pos = [A("pos", sorted(self._vals(rs, (3,), -3, 3).tolist()))
                       for _ in range(self.dim)]
            else:
                pos = A("pos", self._vals(rs, (self.dim, n), -3, 3))
            out.append(T.generate_st_grid(pos, t, mesh_type=mesh))
        elif w == "ang2dir":
            d = rs.choice([2, 3, 4])
            ang = A("angles", self._vals(rs, (rs.randint(1, 3), d - 1), 0.0, 3.0))
            out.append(T.ang2dir(ang, dim=rs.choice([None, d])))
        elif w in ("rotated_main_axes", "matrices"):
            d = rs.choice([2, 3])
            ang = A("angles", self._vals(rs, (cm.n_angles(d),), 0.0, 3.0))
            anis = A("anis", self._vals(rs, (d - 1,), 0.3, 2.0))
            if w == "rotated_main_axes":
                out.append(T.rotated_main_axes(d, ang))
            else:
                for fn in (T.matrix_rotate, T.matrix_derotate):
                    out.append(fn(d, ang))
                for fn in (T.matrix_isotropify, T.matrix_anisotropify):
                    out.append(fn(d, anis))
                for fn in (T.matrix_isometrize, T.matrix_anisometrize):
                    out.append(fn(d, ang, anis))
        elif w == "latlon":
            ll = A("latlon", np.array([self._vals(rs, (n,), -80, 80), self._vals(rs, (n,), -170, 170)]))
            rad = rs.choice([1.0, 6371.0])
            pos = G.latlon2pos(ll, radius=rad, temporal=False)
            out.append(pos)
            out.append(G.pos2latlon(pos, radius=rad))
            if rs.random() < 0.5:
                llt = A("latlon", np.array([self._vals(rs, (n,), -80, 80),
                                            self._vals(rs, (n,), -170, 170),
                                            self._vals(rs, (n,), 0, 9)]))
                p2 = G.latlon2pos(llt, radius=rad, temporal=True, time_scale=rs.choice([1.0, 2.5]))
                out.append(p2)
                out.append(G.pos2latlon(p2, radius=rad, temporal=True, time_scale=2.5))
        elif w == "chordal":
            dist = A("dist", self._vals(rs, (n,), 0.0, 1.9))
            out.append(G.chordal_to_great_circle(dist, rs.choice([1.0, 6371.0])))
            out.append(G.great_circle_to_chordal(dist, rs.choice([1.0, 6371.0])))
        elif w == "transform_apply":
            fld = gs.field.Field(dim=self.dim)
            pos = A("pos", self._vals(rs, (self.dim, n), -3, 3))
            vals = A("field", self._vals(rs, (n,), 0.5, 3.0))
            fld(pos, field=vals, store="f0")
            method = rs.choice(["binary", "boxcox", "zinnharvey", "normal_force_moments",
                                "normal_to_lognormal", "normal_to_uniform", "discrete"])
            kw = {}
            if method == "discrete":
                kw = {"values": A("values", [2.0, -1.0, 0.5])}
            try:
                out.append(gs.transform.apply(fld, method, field="f0", store=rs.choice(
                    [True, False, "f1"]), process=rs.random() < 0.5, **kw))
            except (ValueError, TypeError, AttributeError):
                self.ctx.probe("transform_refused")
            out.append(fld["f0"] if "f0" in fld.field_names else None)
        elif w == "vtk":
            try:
                import pyvista  # noqa: F401
            except ImportError:
                raise Inapplicable("pyvista not installed")
        else:
            raise HarnessError("tools_funcs " + w)
        for r in out:
            self.track(r, "returned:" + w, site, "result")

    def _c_model_funcs(self, op, rs, site):
        m = self.model
        meth = op["method"]
        if self.cfg.get("geo") and meth in ("cov_spatial", "vario_spatial", "vario_axis"):
            raise Inapplicable("cartesian helper on a lat-lon model")
        if meth in ("isometrize", "anisometrize", "cov_spatial", "vario_spatial"):
            rows = m.dim if meth == "anisometrize" else self.dim
            arg = self.alloc("pos", self._vals(rs, (rows, op["n"]), -3, 3), op["layout"],
                             site)
        else:
            arg = self.alloc("lags", self._vals(rs, (op["n"],), 0.0, 5.0), op["layout"], site)
        if meth == "vario_axis":
            res = m.vario_axis(arg, axis=rs.randrange(self.dim))
        else:
            res = getattr(m, meth)(arg)
        self.track(res, "returned:model." + meth, site, "result")

    def state_key(self):
        return [sorted((o, tuple(sorted(self.objs[o].field_names))) for o in self.objs),
                len(self.entries) // 4]

    def close(self):
        pass


def signature(rec):
    v = rec["violation"]
    d = v["detail"]
    site = d.get("changed_at", "")
    site = site.split(":", 1)[1] if ":" in site else site
    return "%s:%s@%s" % (v["invariant"], d.get("role", ""), site)


def simplify(config, ops):
    for key, val in (("normalizer", None),):
        if config.get(key) != val:
            c2 = copy.deepcopy(config)
            c2[key] = val
            yield c2, ops
    for i, op in enumerate(ops):
        if op.get("layout") != "alias":
            o2 = copy.deepcopy(ops)
            o2[i]["layout"] = "alias"
            yield config, o2
        if op.get("n", 0) > 2:
            o2 = copy.deepcopy(ops)
            o2[i]["n"] = 2
            yield config, o2
