"""C17 - Fourier-generated fields are exactly periodic, also after updates.

History machine over one long-lived SRF(generator="Fourier").  After every gen at off-grid
points X:  f(X + k*L_d*a_d) == f(X) for the *current* period L_d and the *current* d-th main
axis a_d, and f(X) equals a freshly constructed Fourier SRF from the spec.
"""
import numpy as np

from sim.core import Violation, Inapplicable, HarnessError, close, maxdiff
from . import common as cm
from . import srf as base

NAME = "fourier"
PROPERTY = "C17"
TIERS = {"quick": (8000, 90.0), "thorough": (300000, 1800.0)}
CHANGE_KINDS = base.CHANGE_KINDS
OBSERVE_KINDS = {"gen"}
RULE = ("one run = seeded history (3-14 ops) over one long-lived Fourier SRF (dim 1-3, per-axis "
        "periods, even mode counts, anisotropic and rotated models): periodicity probes at "
        "off-grid points with shifts k*L_d along main axis d (k in 1,-1,2), in-place model "
        "changes (len_scale, len_scale list, anis, angles, var, optional args), model "
        "re-assignment, period / mode_no / seed updates, ambient faults. distinct = abstract "
        "history signature; non-trivial = a state change or fault precedes a periodicity probe")
COMPONENTS = {
    "real": ["gstools.field.generator.Fourier", "gstools.field.srf/base", "gstools.covmodel "
             "(spectrum incl. hankel transform)", "compiled summate_fourier kernel", "numpy"],
    "stub": ["ambient state mutator (np.random.seed, config.NUM_THREADS)"],
}
ASSUMPTIONS = base.ASSUMPTIONS + [
    "|X| <= 100 so that rounding of the np.arange mode grid stays far below the 1e-9 tolerance",
    "nugget = 0 (nugget noise is white and not periodic by construction)",
]
MODELS = ["Gaussian", "Exponential", "Gaussian", "Exponential", "Matern", "Stable",
          "Rational", "Cubic", "Integral", "JBessel", "TPLGaussian"]


def gen_config(rng):
    dim = rng.choice([1, 2, 2, 3])
    name = rng.choice(MODELS)
    model = cm.gen_model_spec(rng, dim, name=name, nugget=0.0)
    gen = {"kind": "Fourier",
           "period": [rng.choice([8.0, 10.0, 12.5, 20.0, 3.3]) for _ in range(dim)],
           "mode_no": [rng.choice([2, 4, 6, 8]) for _ in range(dim)]}
    cfg = {
        "n_ops": rng.randint(3, 14), "dim": dim, "model": model, "gen": gen,
        "seed": rng.choice(base.SEEDS),
        "mean": rng.choice([0.0, 0.0, 1.5]), "trend": rng.choice([None, None, 0.7]),
        "normalizer": rng.choice([None, None, None, "LogNormal", "YeoJohnson"]),
        "axes": cm.pool_axes(rng, dim), "twin": False, "faults": rng.random() >= 0.4,
    }
    w = {"gen": 6, "set": 5, "assign_model": 1, "gen_set": 5, "set_post": 1, "fault": 3}
    for k in sorted(w):
        r = rng.random()
        if r < 0.15 and k != "gen":
            w[k] = 0
        elif r > 0.85:
            w[k] *= 3
    if not cfg["faults"]:
        w["fault"] = 0
    cfg["weights"] = w
    if rng.random() < 0.1:
        # the model was built in another dimension and brought to this one in place
        cfg["model_route"] = {"from_dim": rng.choice([d for d in (1, 2, 3) if d != dim])}
    return cfg


class Machine(base.Machine):
    def __init__(self, config, ctx):
        super().__init__(config, ctx)
        self.allow_lin = False

    def apply(self, op):
        try:
            return super().apply(op)
        except Violation as v:  # shared oracles are reported under this property's name
            if v.invariant.startswith("C11."):
                v.invariant = "C17.fresh_equal." + v.invariant[4:]
                v.args = (v.invariant,)
            raise

    def _gen_gen(self, rng):
        if rng.random() < 0.2:
            op = super()._gen_gen(rng)
            if op["layout"] != "mesh":
                return op
        n = rng.randint(1, 5)
        pts = [[round(rng.uniform(-100, 100), 3) for _ in range(self.dim)] for _ in range(n)]
        shifts = [[rng.randrange(self.dim), rng.choice([1, -1, 2])]
                  for _ in range(rng.randint(1, 3))]
        return {"op": "gen", "layout": "periodic", "pts": pts, "shifts": shifts,
                "together": rng.random() < 0.5, "seed": self._seed_arg(rng),
                "store": rng.choice(base.STORE_NAMES), "post": rng.random() < 0.7}

    def _gen_set(self, rng):
        op = super()._gen_set(rng)
        if op["param"] == "nugget":
            op = {"op": "set", "param": "var", "value": rng.choice(cm.VAR_GRID)}
        return op

    def _gen_fault(self, rng):
        if self.dim > 1 and rng.random() < 0.02 and \
                self.spec["model"]["cls"] in ("Gaussian", "Exponential", "Matern"):
            # a long history of steps that are each below the tolerance of the model comparison
            return {"fault": "creep", "steps": rng.choice([2000, 3000]),
                    "rel": rng.choice([8e-6, 6e-6]),
                    "pts": [[round(rng.uniform(-5, 5), 2) for _ in range(self.dim)]
                            for _ in range(2)]}
        op = super()._gen_fault(rng)
        if op["fault"] in ("rejected_mode_no", "foreign_hankel"):
            return op
        if op["fault"] == "errstate_raise":
            return op
        if op["fault"] in ("callback_raise", "errstate"):
            op = {"fault": "global_rng", "k": rng.randint(0, 2 ** 31), "n": rng.randint(0, 50)}
        if op["fault"] == "rejected_set" and op["param"] == "nugget":
            op["param"], op["bad"], op["repair"] = "var", -1.0, rng.choice(cm.VAR_GRID)
        return op

    def _apply_fault(self, op):
        if op.get("fault") != "creep":
            return super()._apply_fault(op)
        # thousands of tiny in-place changes, a call after each: every single step may be
        # ignored (models are compared with a relative tolerance of 1e-5), their sum may not
        if self.dim == 1:
            raise Inapplicable("needs a ratio")
        if self.spec["model"]["cls"] not in ("Gaussian", "Exponential", "Matern"):
            # every noticed step recalculates the spectrum: only closed-form spectra are cheap
            raise Inapplicable("numerical spectrum: thousands of Hankel transforms")
        srf = self.sut.srf
        m = srf.model
        pts = np.array(op["pts"], dtype=np.double).T
        a0 = np.array(m.anis, dtype=np.double)
        for i in range(int(op["steps"])):
            m.anis = a0 * (1.0 + op["rel"]) ** (i + 1)
            srf(pts.copy(), store=False, post_process=False)
        self.twin = None   # the twin did not take part
        self._sync_spec_model()
        self.ctx.fired("creep")
        got = np.array(srf(pts.copy(), store=False, post_process=False), dtype=np.double)
        fresh = np.array(base.build_srf(self.spec)(pts.copy(), store=False, post_process=False),
                         dtype=np.double)
        self.ctx.observations += 1
        # coarse on purpose: up to 1e-5 of the drift may legitimately be pending
        if np.max(np.abs(got - fresh)) > 0.02 * max(1.0, float(np.max(np.abs(fresh)))):
            raise Violation("C17.fresh_equal.creep", steps=op["steps"], rel=op["rel"],
                            maxdiff=maxdiff(got, fresh))
        # re-anchor with two definite steps, so that the exact comparisons that follow are sound
        final = np.array(m.anis, dtype=np.double)
        m.anis = final * 1.5
        srf(pts.copy(), store=False, post_process=False)
        m.anis = final
        srf(pts.copy(), store=False, post_process=False)
        self._sync_spec_model()
        self.rng_fresh = False
        self.model_at_last_gen = None
        self.last = None

    def _apply_gen(self, op):
        if op["layout"] != "periodic":
            try:
                return super()._apply_gen(op)
            except Violation as v:  # same oracle, reported under this property's name
                if v.invariant.startswith("C11."):
                    v.invariant = "C17.fresh_equal." + v.invariant[4:]
                    v.args = (v.invariant,)
                raise
        pts = np.array(op["pts"], dtype=np.double).T  # (dim, n)
        if pts.ndim != 2 or pts.shape[0] != self.dim or pts.shape[1] == 0:
            raise Inapplicable("bad points")
        if "value" in op["seed"]:
            self.spec["seed"] = op["seed"]["value"]
        side = self.sut
        post = bool(op["post"])
        # first call (may carry the seed), at X
        fx = np.array(self._call(side, op, pts.copy(), "unstructured", op["seed"], op["store"]))
        self.last = None
        self.ctx.observations += 1
        self.ctx.note("gen", fx)
        # current period and main axes, from the abstract spec (fresh model), not from the SUT
        period = self.spec["gen"]["period"]
        fresh_model = cm.build_model(self.spec["model"])
        axes = fresh_model.main_axes()
        if self.dim == 2:
            th = self.spec["model"]["angles"][0]
            ind = np.array([[np.cos(th), np.sin(th)], [-np.sin(th), np.cos(th)]])
            if not close(axes, ind, rtol=1e-12):
                raise Violation("C17.main_axes_2d", angles=th)
        keep = {"mode": "keep"}
        shifted = []
        for d, k in op["shifts"]:
            if not 0 <= d < self.dim:
                raise Inapplicable("axis")
            shifted.append(pts + k * period[d] * axes[d].reshape(self.dim, 1))
        n = pts.shape[1]
        if op["together"]:
            allpts = np.concatenate([pts] + shifted, axis=1)
            fall = np.array(self._call(side, op, allpts, "unstructured", keep, op["store"]))
            outs = [fall[(i + 1) * n:(i + 2) * n] for i in range(len(shifted))]
            if not close(fall[:n], fx, rtol=1e-9):
                raise Violation("C17.repeat_call", maxdiff=maxdiff(fall[:n], fx))
        else:
            outs = [np.array(self._call(side, op, sp, "unstructured", keep, op["store"]))
                    for sp in shifted]
        for (d, k), fs in zip(op["shifts"], outs):
            self.ctx.observations += 1
            self.ctx.note("shift", fs)
            if not close(fs, fx, rtol=1e-9):
                raise Violation("C17.periodic", axis=d, k=k, period=period,
                                maxdiff=maxdiff(fs, fx), anis=self.spec["model"]["anis"],
                                angles=self.spec["model"]["angles"])
        exp = self._ref_at(pts, post)
        if not close(fx, exp, rtol=self.tol):
            raise Violation("C17.fresh_equal", maxdiff=maxdiff(fx, exp))


def signature(rec):
    return rec["violation"]["invariant"]


def simplify(config, ops):
    import copy
    for i, op in enumerate(ops):
        if op.get("layout") == "periodic":
            if len(op["pts"]) > 1:
                o2 = copy.deepcopy(ops)
                o2[i]["pts"] = op["pts"][:1]
                yield config, o2
            if len(op["shifts"]) > 1:
                for sh in op["shifts"]:
                    o2 = copy.deepcopy(ops)
                    o2[i]["shifts"] = [sh]
                    yield config, o2
            if op["together"]:
                o2 = copy.deepcopy(ops)
                o2[i]["together"] = False
                yield config, o2
    for key, val in (("mean", 0.0), ("trend", None), ("normalizer", None)):
        if config.get(key) != val:
            c2 = copy.deepcopy(config)
            c2[key] = val
            yield c2, ops
