"""C15 - compiled kernels equal their source semantics under every thread count.

The .pyx sources of the *working tree* are translated to schedulable Python (pyx2py) and run
under a simulated OpenMP runtime (omprt): seeded team size, iteration-to-thread map and
interleaving of every shared load / store.  Invariants:
 (a) no data race (vector clocks)                              C15.race.<kernel>
 (b) result bit-identical to the sequential interpretation      C15.schedule_dependent.<kernel>
 (c) sequential interpretation == compiled artefact (1e-13)     C15.artefact_vs_source.<kernel>
 (d) compiled artefact via the Python wrappers == NumPy defining sums (1e-10)
                                                                C15.defining_sums.<kernel>
 (e) whole pipeline (SRF / Krige / vario_estimate) on simulated kernels == on compiled ones
                                                                C15.pipeline.<what>
"""
import copy
import math
import os
import random

import numpy as np

from sim.core import Violation, Inapplicable, HarnessError, close, maxdiff, jdump
from . import omprt, pyx2py

NAME = "ompsim"
PROPERTY = "C15"
TIERS = {"quick": (15000, 90.0), "thorough": (400000, 1800.0)}
CHANGE_KINDS = set()
OBSERVE_KINDS = {"run", "pipeline", "wrapper", "vario_dirs", "ompbuild"}
RULE = ("one run = 2-6 ops, each one simulated execution of a kernel (summate, "
        "summate_incompr, summate_fourier, calc_field_krige, calc_field_krige_and_variance, "
        "unstructured [euclid / haversine], directional, structured, ma_structured; matheron / "
        "cressie; NaNs) translated from the working tree's .pyx, with seeded team size "
        "(1,2,3,4,8,16,None), schedule kind (static, cyclic, dynamic, guided) and interleaving "
        "policy (random, bursty, round robin, reverse); or a differential run of the compiled "
        "kernel through its Python wrapper against the NumPy defining sums (sizes 0/1 up to "
        "thousands); or a whole-pipeline run (SRF / Krige / vario_estimate on simulated kernels "
        "vs compiled ones under num_threads faults). distinct = (kernel, shapes, team, "
        "schedule kind, policy); non-trivial = team size >= 2 with >= 2 iterations, or a "
        "differential run with non-empty arrays")
COMPONENTS = {
    "real": ["compiled .so kernels of the tree (artefact side of c, d, e)",
             "Python wrappers _summate*, _calc_field_krige*, _unstructured, _directional, "
             "_structured, _ma_structured", "gstools SRF / Krige / vario_estimate (pipeline)"],
    "stub": ["OpenMP runtime (simulated: team, work sharing, barriers, scheduler)",
             "kernel arithmetic in simulated runs: interpreted from the .pyx text, compared "
             "back against the real artefact"],
    "real_openmp_build": "thorough tier only: gcc -fopenmp build of the tree's generated C, "
                         "observed under num_threads 1..16, schedule not controlled",
}
ASSUMPTIONS = [
    "pyx2py understands the Cython subset used by the three kernel files; anything else is a "
    "HARNESS-ERROR",
    "Cython is not installed: the compiled artefact cannot be regenerated from an edited .pyx; "
    "artefact != interpretation of the tree's source is reported as the violation it is",
    "simulated sizes: <= 8 output points / bins, <= 6 modes / conditions, dim <= 3",
]

REPO_SRC = os.environ.get("VERIF_REPO_SRC", "/repo/src")
FILES = {
    "summator": "gstools/field/summator.pyx",
    "krigesum": "gstools/krige/krigesum.pyx",
    "estimator": "gstools/variogram/estimator.pyx",
}
KERNELS = {
    "summate": "summator", "summate_incompr": "summator", "summate_fourier": "summator",
    "calc_field_krige": "krigesum", "calc_field_krige_and_variance": "krigesum",
    "unstructured": "estimator", "directional": "estimator", "structured": "estimator",
    "ma_structured": "estimator",
}
_CODE = {}


def code_for(mod):
    if mod not in _CODE:
        path = os.path.join(REPO_SRC, FILES[mod])
        text = open(path).read()
        try:
            tree, src, mv, funcs = pyx2py.translate(text, mod)
            _CODE[mod] = (compile(tree, "<pyx2py:%s>" % mod, "exec"), funcs)
        except pyx2py.TranslationError as e:
            raise HarnessError("pyx2py: %s" % e)
        except SyntaxError as e:
            raise HarnessError("pyx2py produced invalid code: %s" % e)
    return _CODE[mod]


def c_sqrt(x):
    return math.sqrt(x) if x >= 0 else float("nan")


def c_acos(x):
    return math.acos(x) if -1.0 <= x <= 1.0 else float("nan")


def c_pow(x, y):
    try:
        return math.pow(x, y)
    except (OverflowError, ValueError):
        return float("inf") if x == x else x


def compiled(kernel):
    if KERNELS[kernel] == "summator":
        from gstools.field import summator as m
    elif KERNELS[kernel] == "krigesum":
        from gstools.krige import krigesum as m
    else:
        from gstools.variogram import estimator as m
    return getattr(m, kernel)


def simulate(kernel, args, kwargs, team, sched, policy, sseed, nprocs=4):
    """-> (outputs as numpy arrays (tuple), runtime)"""
    code, funcs = code_for(KERNELS[kernel])
    rt = omprt.RT(random.Random(sseed), team, sched, policy, nprocs)
    ns = omprt.namespace(rt)
    ns.update(sqrt=c_sqrt, acos=c_acos, pow=c_pow)
    exec(code, ns)
    margs = [omprt.MV.from_array(a, "arg%d" % i) if isinstance(a, np.ndarray) else a
             for i, a in enumerate(args)]
    gen = ns[kernel](*margs, **kwargs)
    res = omprt.drive(gen, rt)
    if not isinstance(res, tuple):
        res = (res,)
    return tuple(r.to_numpy() for r in res), rt


# ------------------------------------------------------------------ inputs


def _vals(rs, shape, lo=-2.0, hi=2.0):
    n = int(np.prod(shape)) if len(shape) else 1
    return np.array([rs.uniform(lo, hi) for _ in range(n)], dtype=np.double).reshape(shape)


def make_inputs(kernel, size, vseed):
    """Deterministic inputs from (kernel, size dict, vseed)."""
    rs = random.Random(vseed)
    dim, n, m = size["dim"], size["n"], size["m"]
    kw = {}
    if kernel in ("summate", "summate_incompr"):
        if kernel == "summate_incompr":
            dim = max(dim, 2)
        args = [_vals(rs, (dim, m)), _vals(rs, (m,)), _vals(rs, (m,)), _vals(rs, (dim, n), -5, 5)]
    elif kernel == "summate_fourier":
        args = [_vals(rs, (m,), 0.0, 1.0), _vals(rs, (dim, m)), _vals(rs, (m,)), _vals(rs, (m,)),
                _vals(rs, (dim, n), -5, 5)]
    elif kernel in ("calc_field_krige", "calc_field_krige_and_variance"):
        a = _vals(rs, (m, m))
        # the kernels are defined for any matrix: symmetric (kriging) and not (pseudo inverses
        # supplied by the user), in any memory layout a typed memory view accepts
        mat = a + a.T if rs.random() < 0.5 else a
        args = [mat, _vals(rs, (m, n)), _vals(rs, (m,))]
    elif kernel in ("unstructured", "directional"):
        fcnt = size.get("f", 1)
        hav = size.get("dist") == "h"
        if hav:
            dim = 2
            pos = np.array([_vals(rs, (n,), -80, 80), _vals(rs, (n,), -170, 170)])
            edges = np.linspace(0.0, 3.2, m + 1)
        else:
            pos = _vals(rs, (dim, n), -3, 3)
            edges = np.linspace(0.0, 7.0, m + 1)
        f = _vals(rs, (fcnt, n))
        if size.get("nan") and n > 1:
            f[0, rs.randrange(n)] = np.nan
        if kernel == "unstructured":
            args = [f, edges, pos]
            kw = {"estimator_type": size.get("est", "m"), "distance_type": "h" if hav else "e"}
        else:
            dcnt = size.get("dirs", 1)
            d = _vals(rs, (dcnt, dim))
            d /= np.linalg.norm(d, axis=1)[:, None]
            args = [f, edges, pos, d]
            kw = {"angles_tol": size.get("tol", math.pi / 8), "bandwidth": size.get("bw", -1.0),
                  "separate_dirs": bool(size.get("sep", False)),
                  "estimator_type": size.get("est", "m")}
    elif kernel in ("structured", "ma_structured"):
        f = _vals(rs, (max(n, 1), max(m, 1)))
        if kernel == "ma_structured":
            mask = np.array([[rs.random() < 0.3 for _ in range(f.shape[1])]
                             for _ in range(f.shape[0])], dtype=np.uint8)
            args = [f, mask]
        else:
            args = [f]
        kw = {"estimator_type": size.get("est", "m")}
    else:
        raise HarnessError(kernel)
    # memory layout of the 2-d inputs (C, Fortran, strided view): values are the same
    lay = size.get("layout", "C")
    if lay != "C":
        out = []
        for a in args:
            if isinstance(a, np.ndarray) and a.ndim == 2 and a.dtype == np.double:
                if lay == "F":
                    a = np.asfortranarray(a)
                else:
                    big = np.zeros((a.shape[0], a.shape[1] * 2))
                    big[:, ::2] = a
                    a = big[:, ::2]
            out.append(a)
        args = out
    return args, kw


# ------------------------------------------------------------------ NumPy defining sums


def defining(kernel, args, kw):
    if kernel == "summate":
        cs, z1, z2, pos = args
        ph = cs.T @ pos  # (m, n)
        return (np.sum(z1[:, None] * np.cos(ph) + z2[:, None] * np.sin(ph), axis=0),)
    if kernel == "summate_fourier":
        sf, modes, z1, z2, pos = args
        ph = modes.T @ pos
        return (np.sum(sf[:, None] * (z1[:, None] * np.cos(ph) + z2[:, None] * np.sin(ph)),
                       axis=0),)
    if kernel == "summate_incompr":
        cs, z1, z2, pos = args
        dim = pos.shape[0]
        ph = cs.T @ pos
        amp = z1[:, None] * np.cos(ph) + z2[:, None] * np.sin(ph)  # (m, n)
        k2 = np.sum(cs ** 2, axis=0)
        e1 = np.zeros(dim)
        e1[0] = 1.0
        proj = e1[:, None] - cs * cs[0] / k2  # (dim, m)
        return (proj @ amp,)
    if kernel in ("calc_field_krige", "calc_field_krige_and_variance"):
        mat, vecs, cond = args
        kf = mat @ vecs
        field = cond @ kf
        if kernel == "calc_field_krige":
            return (field,)
        return field, np.sum(vecs * kf, axis=0)
    if kernel in ("unstructured", "directional"):
        f, edges, pos = args[:3]
        est = kw.get("estimator_type", "m")
        n = pos.shape[1]
        nb = len(edges) - 1
        dirs = args[3] if kernel == "directional" else None
        dcnt = dirs.shape[0] if dirs is not None else 1
        vario = np.zeros((dcnt, nb))
        counts = np.zeros((dcnt, nb), dtype=np.int64)
        for j in range(n - 1):
            for k in range(j + 1, n):
                if kw.get("distance_type", "e") == "h":
                    la1, lo1, la2, lo2 = np.radians([pos[0, j], pos[1, j], pos[0, k], pos[1, k]])
                    a = np.sin((la2 - la1) / 2) ** 2 + np.cos(la1) * np.cos(la2) * np.sin(
                        (lo2 - lo1) / 2) ** 2
                    dist = 2 * np.arctan2(np.sqrt(a), np.sqrt(1 - a))
                else:
                    dist = np.sqrt(np.sum((pos[:, j] - pos[:, k]) ** 2))
                b = np.searchsorted(edges, dist, side="right") - 1
                if not (0 <= b < nb) or not (edges[b] <= dist < edges[b + 1]):
                    continue
                hit = []
                for d in range(dcnt):
                    if dirs is not None:
                        v = pos[:, k] - pos[:, j]
                        s = float(v @ dirs[d])
                        ok = True
                        bw = kw.get("bandwidth", -1.0)
                        if bw > 0:
                            ok = np.sqrt(np.sum((v - s * dirs[d]) ** 2)) < bw
                        if dist > 0:
                            t = abs(s) / dist
                            if t < 1.0:
                                ok = ok and (np.arccos(t) < kw.get("angles_tol", np.pi / 8))
                        if not ok:
                            continue
                    hit.append(d)
                    if dirs is not None and kw.get("separate_dirs"):
                        break
                for d in hit:
                    for mm in range(f.shape[0]):
                        if not (np.isnan(f[mm, k]) or np.isnan(f[mm, j])):
                            counts[d, b] += 1
                            df = f[mm, k] - f[mm, j]
                            vario[d, b] += df * df if est == "m" else np.sqrt(abs(df))
        vario = _normalize(vario, counts, est)
        if kernel == "unstructured":
            return vario[0], counts[0]
        return vario, counts
    if kernel in ("structured", "ma_structured"):
        f = args[0]
        mask = args[1] if kernel == "ma_structured" else np.zeros(f.shape, dtype=np.uint8)
        est = kw.get("estimator_type", "m")
        kmax = f.shape[0]
        vario = np.zeros(kmax)
        counts = np.zeros(kmax, dtype=np.int64)
        for k in range(1, kmax):
            a, b = f[:-k], f[k:]
            ok = (mask[:-k] == 0) & (mask[k:] == 0)
            df = (a - b)[ok]
            counts[k] = df.size
            vario[k] = np.sum(df * df) if est == "m" else np.sum(np.sqrt(np.abs(df)))
        return (_normalize(vario[None], counts[None], est)[0],)
    raise HarnessError(kernel)


def _normalize(vario, counts, est):
    cnt = np.maximum(counts, 1)
    if est == "m":
        return vario / (2.0 * cnt)
    return 0.5 * (1.0 / cnt * vario) ** 4 / (0.457 + 0.494 / cnt + 0.045 / cnt ** 2)


# ------------------------------------------------------------------ machine

TEAMS = [1, 2, 2, 3, 4, 8, 16, None]
SCHEDS = ["static", "cyclic", "dynamic", "guided"]
POLICIES = ["random", "bursty", "roundrobin", "reverse"]


def gen_config(rng):
    return {"n_ops": rng.randint(2, 6), "faults": True}


def is_nontrivial(ops):
    for o in ops:
        if o.get("_skipped"):
            continue
        if o.get("op") == "run" and (o["team"] is None or o["team"] >= 2) and o["size"]["n"] >= 2:
            return True
        if o.get("op") in ("wrapper", "pipeline", "ompbuild", "vario_dirs"):
            return True
    return False


def history_sig(op):
    if op.get("op") == "run":
        s = op["size"]
        return "run:%s:%s:%s:%s:%d:%d:%d" % (op["kernel"], op["team"], op["sched"], op["policy"],
                                            s["dim"], s["n"], s["m"])
    if op.get("op") == "ompbuild":
        return "ompbuild:%s" % op["kernel"]
    if op.get("op") == "vario_dirs":
        return "vario_dirs:%d:%d:%s:%s%s" % (op["dim"], len(op["angles_deg"]), op["tol_deg"],
                                            op.get("masked", ""), "L" if op.get("latlon") else
                                            ("G" if op.get("grid") else ("F" if op.get("fourier") else
                                                                         ("K" if op.get("krige")
                                                                          else ""))))
    if op.get("op") == "wrapper":
        s = op["size"]
        return "wrapper:%s:%d:%d:%d:%s" % (op["kernel"], s["dim"], min(s["n"], 50) // 5,
                                           min(s["m"], 50) // 5, op.get("threads"))
    return "pipeline:%s:%s" % (op.get("what"), op.get("threads"))


class Machine:
    def __init__(self, config, ctx):
        self.cfg = config
        self.ctx = ctx
        self.force_observe = False

    def _size(self, rng, kernel, big=False):
        if big:
            n = rng.choice([0, 1, 2, 7, 50, 300, 2000])
            m = rng.choice([1, 2, 7, 40, 200, 1000])
            if rng.random() < 0.35:
                # sizes around powers of two (block / chunk boundaries) and odd sizes
                base = rng.choice([64, 128, 256, 512, 1024, 2048, 4096])
                n = base * rng.choice([1, 1, 2, 3]) + rng.choice([-1, 0, 1])
                m = rng.choice([1, 2, 5])
            elif rng.random() < 0.2:
                n = rng.randint(3, 5000)
                m = rng.choice([1, 3])
            if kernel in ("unstructured", "directional"):
                n = rng.choice([1, 2, 7, 40, 150])
                m = rng.choice([1, 2, 5, 12])
            if kernel in ("structured", "ma_structured"):
                n = rng.choice([1, 2, 7, 60, 300])
                m = rng.choice([1, 2, 7, 30])
            if kernel.startswith("calc_field"):
                m = rng.choice([1, 2, 7, 40, 120])
        else:
            n = rng.randint(1, 8)
            m = rng.randint(1, 6)
        size = {"dim": rng.choice([1, 2, 3] + ([4] if big else [])), "n": n, "m": m,
                "layout": rng.choice(["C", "C", "F", "strided"])}
        if kernel in ("unstructured", "directional", "structured", "ma_structured"):
            size["est"] = rng.choice(["m", "c"])
        if kernel in ("unstructured", "directional"):
            size["f"] = rng.choice([1, 1, 2])
            size["nan"] = rng.random() < 0.3
            if kernel == "unstructured" and rng.random() < 0.3:
                size["dist"] = "h"
            if kernel == "directional":
                size["dim"] = rng.choice([2, 3])
                size["dirs"] = rng.choice([1, 2, 3])
                size["bw"] = rng.choice([-1.0, 1.5])
                size["sep"] = rng.random() < 0.3
                size["tol"] = rng.choice([math.pi / 8, 0.2, 1.0])
        return size

    def gen_op(self, rng):
        r = rng.random()
        kernel = rng.choice(sorted(KERNELS))
        if os.environ.get("VERIF_C15_OMPBUILD") and rng.random() < 0.15:
            size = self._size(rng, kernel, big=True)
            size["n"] = min(size["n"], 60 if KERNELS[kernel] == "estimator" else 300)
            size["m"] = min(size["m"], 30 if KERNELS[kernel] == "estimator" else 200)
            return {"op": "ompbuild", "kernel": kernel, "size": size,
                    "vseed": rng.randint(0, 2 ** 31), "reps": rng.choice([2, 5, 10])}
        if r > 0.985 and rng.random() < 0.25:
            # public simple kriging against the textbook formulas (dense linear algebra)
            dim = rng.choice([1, 2, 2, 3])
            return {"op": "vario_dirs", "krige": True, "dim": dim, "n": rng.randint(1, 6),
                    "ncond": rng.randint(2, 6), "cls": rng.choice(["Gaussian", "Exponential"]),
                    "values": rng.choice(["random", "random", "all_mean", "all_zero"]),
                    "mean": rng.choice([0.0, 1.5]), "chunk": rng.choice([None, 1, 2]),
                    "vseed": rng.randint(0, 2 ** 31), "angles_deg": [], "tol_deg": 0,
                    "est": "matheron"}
        if r > 0.985 and rng.random() < 0.3:
            # public Fourier generator (positions inside and outside one period, anisotropic
            # and rotated models) against the defining sum built from its public pieces
            dim = rng.choice([1, 2, 2, 3])
            return {"op": "vario_dirs", "fourier": True, "dim": dim, "n": rng.randint(1, 6),
                    "anis": [rng.choice([0.25, 0.5, 1.0, 1.8]) for _ in range(dim - 1)],
                    "angles": [rng.choice([0.0, 0.4, 1.1]) for _ in range(dim * (dim - 1) // 2)],
                    "period": [rng.choice([3.3, 8.0, 12.5]) for _ in range(dim)],
                    "mode_no": [rng.choice([2, 4, 6]) for _ in range(dim)],
                    "seed": rng.choice([1, 42, 20170519]), "vseed": rng.randint(0, 2 ** 31),
                    "cls": rng.choice(["Gaussian", "Exponential"]),
                    "angles_deg": [], "tol_deg": 0, "est": "matheron"}
        if r > 0.985:
            if rng.random() < 0.5:
                return {"op": "vario_dirs", "masked": "stacked", "dim": rng.choice([1, 2, 3]),
                        "n": rng.randint(4, 20), "fields": rng.choice([2, 3]),
                        "bins": rng.randint(1, 4), "vseed": rng.randint(0, 2 ** 31),
                        "angles_deg": [], "tol_deg": 0,
                        "est": rng.choice(["matheron", "cressie"])}
            return {"op": "vario_dirs", "masked": "axis", "dim": 2, "n": rng.randint(3, 9),
                    "m": rng.randint(1, 5), "l": rng.choice([None, None, 2, 3]),
                    "axis": rng.choice([0, 0, 1, 2]), "axis_by_name": rng.random() < 0.6,
                    "layouts": rng.choice(["CC", "CC", "CF", "FC", "FF"]),
                    "no_data": rng.choice([None, -9999.0]),
                    "vseed": rng.randint(0, 2 ** 31), "angles_deg": [], "tol_deg": 0,
                    "est": rng.choice(["matheron", "cressie"])}
        if r > 0.97:
            return {"op": "vario_dirs", "latlon": True, "dim": 2, "n": rng.randint(4, 20),
                    "bins": rng.randint(1, 4), "vseed": rng.randint(0, 2 ** 31),
                    "geo_scale": rng.choice([6371.0, 57.29577951308232, 1.0]),
                    "angles_deg": [], "tol_deg": 0,
                    "est": rng.choice(["matheron", "cressie"])}
        if r > 0.93 and rng.random() < 0.3:
            # lattice points and axis directions: pairs exactly perpendicular to a direction sit
            # exactly on the (strict) angle criterion when the tolerance is pi/2
            dim = rng.choice([2, 2, 3])
            return {"op": "vario_dirs", "grid": True, "dim": dim, "n": rng.randint(4, 16),
                    "bins": rng.randint(1, 4), "vseed": rng.randint(0, 2 ** 31),
                    "angles_deg": sorted(rng.sample(range(dim), rng.randint(1, dim))),
                    # (no 45: lattice diagonals would sit on a criterion that is decided by
                    # rounding; at 90 the boundary pairs have a scalar product of exactly 0)
                    "tol_deg": rng.choice([90, 90, 30, 120]),
                    "bw": rng.choice([None, None, None, 1.5]),
                    "est": rng.choice(["matheron", "cressie"])}
        if r > 0.93:
            return {"op": "vario_dirs", "dim": rng.choice([2, 2, 3]), "n": rng.randint(4, 25),
                    "bins": rng.randint(1, 4), "vseed": rng.randint(0, 2 ** 31),
                    "angles_deg": [rng.choice([0, 10, 25, 45, 80, 90, 100, 135, 170])
                                   for _ in range(rng.randint(1, 4))],
                    "tol_deg": rng.choice([5, 10, 20, 22.5, 40]),
                    "bw": rng.choice([None, None, 1.5]), "est": rng.choice(["matheron",
                                                                            "cressie"]),
                    # missing values marked by a number, together with a trend to remove
                    "no_data": rng.choice([None, None, -999.0, 0.0]),
                    "trend": rng.choice([None, 0.3])}
        if r < 0.6:
            return {"op": "run", "kernel": kernel, "size": self._size(rng, kernel),
                    "vseed": rng.randint(0, 2 ** 31), "team": rng.choice(TEAMS),
                    "nprocs": rng.choice([2, 3, 4, 8]), "sched": rng.choice(SCHEDS),
                    "policy": rng.choice(POLICIES), "sseed": rng.randint(0, 2 ** 31)}
        if r < 0.85:
            return {"op": "wrapper", "kernel": kernel, "size": self._size(rng, kernel, big=True),
                    "vseed": rng.randint(0, 2 ** 31),
                    "threads": rng.choice([None, 1, 2, 3, 4, 8, 16])}
        return {"op": "pipeline",
                "what": rng.choice(["srf", "fourier", "incompr", "krige", "krige_novar",
                                    "vario_unstructured", "vario_directional",
                                    "vario_structured", "vario_masked"]),
                "vseed": rng.randint(0, 2 ** 31), "threads": rng.choice([None, 1, 2, 4, 16]),
                "team": rng.choice([2, 3, 4]), "sched": rng.choice(SCHEDS),
                "policy": rng.choice(POLICIES), "sseed": rng.randint(0, 2 ** 31)}

    def apply(self, op):
        k = op["op"]
        if k == "ompbuild":
            return self._ompbuild(op)
        if k == "vario_dirs":
            return self._vario_dirs(op)
        if k == "run":
            return self._run(op)
        if k == "wrapper":
            return self._wrapper(op)
        if k == "pipeline":
            return self._pipeline(op)
        raise HarnessError(str(op))

    # -- (a) (b) (c)
    def _run(self, op):
        kernel = op["kernel"]
        if kernel not in KERNELS:
            raise Inapplicable("kernel")
        args, kw = make_inputs(kernel, op["size"], op["vseed"])
        ctx = self.ctx
        try:
            seq, rt0 = simulate(kernel, args, dict(kw, num_threads=1), 1, "static",
                                "roundrobin", 0)
            if rt0.max_team != 1:
                raise HarnessError("sequential interpretation ran with a team of %d"
                                   % rt0.max_team)
        except (omprt.Race, omprt.Deadlock) as e:
            raise Violation("C15.sequential_interpretation_failed." + kernel, error=str(e))
        except ValueError as e:
            if "kernel argument error" in str(e) or "too small" in str(e):
                raise Inapplicable("kernel rejects these shapes")
            raise
        team = op["team"]
        try:
            par, rt = simulate(kernel, args, dict(kw, num_threads=team), team if team else None,
                               op["sched"], op["policy"], op["sseed"], op.get("nprocs", 4))
        except omprt.Race as e:
            ctx.fired("thread_schedule")
            raise Violation("C15.race." + kernel, what=e.what, cell=list(e.cell),
                            threads=[str(e.t1), str(e.t2)], team=team, sched=op["sched"],
                            policy=op["policy"])
        except omprt.Deadlock as e:
            raise Violation("C15.deadlock." + kernel, error=str(e), team=team)
        except omprt.UninitialisedPrivate as e:
            raise Violation("C15.uninitialised_private." + kernel, name=str(e), team=team)
        ctx.fired("thread_schedule")
        ctx.probe("sim.steps", rt.steps)
        ctx.probe("ompsim.barrier_crossed", rt.barriers)
        ctx.probe("sim.team_%s" % rt.max_team)
        ctx.state(["il", kernel, rt.interleave_hash])
        ctx.observations += 1
        for a, b in zip(seq, par):
            ctx.note("run:" + kernel, b)
            if a.shape != b.shape or not np.array_equal(a, b, equal_nan=True):
                raise Violation("C15.schedule_dependent." + kernel, team=team,
                                sched=op["sched"], policy=op["policy"],
                                maxdiff=maxdiff(a, b), trace=[str(t) for t in rt.trace[:60]])
        # (c) sequential interpretation vs compiled artefact
        try:
            art = compiled(kernel)(*args, **kw)
        except ValueError:
            raise Violation("C15.artefact_vs_source." + kernel, error="artefact raised")
        art = art if isinstance(art, tuple) else (art,)
        for a, b in zip(seq, art):
            b = np.asarray(b)
            if a.shape != b.shape or not close(a, b, rtol=1e-13, atol=1e-13 * max(
                    1.0, float(np.nanmax(np.abs(b))) if b.size and np.isfinite(b).any() else 1.0)):
                raise Violation("C15.artefact_vs_source." + kernel, maxdiff=maxdiff(a, b),
                                size=op["size"])

    # -- real OpenMP build, observed (the OS decides the interleaving)
    def _ompbuild(self, op):
        from . import ompbuild
        bdir = os.environ.get("VERIF_C15_OMPBUILD")
        if not bdir:
            raise Inapplicable("no OpenMP build available in this tier")
        kernel = op["kernel"]
        args, kw = make_inputs(kernel, op["size"], op["vseed"])
        fn = getattr(ompbuild.load(bdir, KERNELS[kernel]), kernel)
        try:
            ref = compiled(kernel)(*[np.array(a) for a in args], **kw)
        except ValueError:
            raise Inapplicable("rejected shapes")
        ref = ref if isinstance(ref, tuple) else (ref,)
        self.ctx.observations += 1
        for nt in (1, 2, 3, 4, 8, 16, None):
            for rep in range(op["reps"] if nt != 1 else 1):
                got = fn(*[np.array(a) for a in args], **dict(kw, num_threads=nt))
                got = got if isinstance(got, tuple) else (got,)
                self.ctx.probe("ompbuild.calls")
                for a, b in zip(got, ref):
                    a, b = np.asarray(a), np.asarray(b)
                    if a.shape != b.shape or not np.array_equal(a, b, equal_nan=True):
                        raise Violation("C15.omp_build." + kernel, num_threads=nt, rep=rep,
                                        maxdiff=maxdiff(a, b), size=op["size"])
        self.ctx.note("ompbuild:" + kernel, *[np.asarray(r) for r in ref])

    def _wrapper_call(self, kernel, args, kw):
        from gstools.field import generator as G
        from gstools.krige import base as K
        from gstools.variogram import variogram as V
        est = kw.get("estimator_type", "m")
        names = {"summate": (G, "_summate"), "summate_incompr": (G, "_summate_incompr"),
                 "summate_fourier": (G, "_summate_fourier"),
                 "calc_field_krige": (K, "_calc_field_krige"),
                 "calc_field_krige_and_variance": (K, "_calc_field_krige_and_variance"),
                 "unstructured": (V, "_unstructured"), "directional": (V, "_directional"),
                 "structured": (V, "_structured"), "ma_structured": (V, "_ma_structured")}
        mod, attr = names[kernel]
        if not hasattr(mod, attr):
            # the private wrapper was renamed / inlined: the compiled kernel is still reachable
            self.ctx.probe("wrapper_missing_used_kernel." + kernel)
            fn = compiled(kernel)
            return lambda nt: fn(*[np.array(a) if isinstance(a, np.ndarray) else a
                                   for a in args], **dict(kw, num_threads=nt))
        fns = {
            "summate": lambda nt: G._summate(*args, num_threads=nt),
            "summate_incompr": lambda nt: G._summate_incompr(*args, num_threads=nt),
            "summate_fourier": lambda nt: G._summate_fourier(*args, num_threads=nt),
            "calc_field_krige": lambda nt: K._calc_field_krige(*args, num_threads=nt),
            "calc_field_krige_and_variance":
                lambda nt: K._calc_field_krige_and_variance(*args, num_threads=nt),
            "unstructured": lambda nt: V._unstructured(
                *args, estimator_type=est, distance_type=kw.get("distance_type", "e"),
                num_threads=nt),
            "directional": lambda nt: V._directional(
                *args, angles_tol=kw.get("angles_tol"), bandwidth=kw.get("bandwidth"),
                separate_dirs=kw.get("separate_dirs"), estimator_type=est, num_threads=nt),
            "structured": lambda nt: V._structured(*args, estimator_type=est, num_threads=nt),
            "ma_structured": lambda nt: V._ma_structured(*args, estimator_type=est,
                                                         num_threads=nt),
        }
        return fns[kernel]

    # -- public estimator with several directions == defining sums (every direction counts
    #    all pairs inside its own cone; `separate_dirs` is only an optimisation)
    def _vario_latlon(self, op):
        """vario_estimate(latlon=True, geo_scale) called twice with the caller's same float64
        bin_edges array: both results must equal the haversine defining sums."""
        import gstools as gs
        rs = random.Random(op["vseed"])
        n = op["n"]
        pos = np.array([_vals(rs, (n,), -80, 80), _vals(rs, (n,), -170, 170)])
        gsc = op["geo_scale"]
        edges = np.linspace(0.0, 3.0, op["bins"] + 1) * gsc
        for rep in range(2):
            f = _vals(rs, (1, n))
            res = gs.vario_estimate(pos, f[0], bin_edges=edges, latlon=True, geo_scale=gsc,
                                    return_counts=True, estimator=_spell(op))
            ref = defining("unstructured", [f, np.linspace(0.0, 3.0, op["bins"] + 1), pos],
                           {"estimator_type": op["est"][0], "distance_type": "h"})
            self.ctx.observations += 1
            self.ctx.probe("wrapper.vario_estimate_latlon")
            if not np.array_equal(np.asarray(res[2]), ref[1]) or not close(res[1], ref[0],
                                                                          rtol=1e-10):
                raise Violation("C15.defining_sums.vario_estimate_latlon", call=rep + 1,
                                counts=np.asarray(res[2]).tolist(), want=ref[1].tolist())

    def _vario_masked(self, op):
        """Public estimators with masked input == defining sums with the masked values treated
        as missing: stacked fields with different masks (vario_estimate) and masked arrays that
        also contain NaN / no_data values (vario_estimate_axis)."""
        import gstools as gs
        rs = random.Random(op["vseed"])
        est = op["est"]
        if op["masked"] == "stacked":
            dim, n, k = op["dim"], op["n"], op["fields"]
            pos = _vals(rs, (dim, n), -3, 3)
            data = _vals(rs, (k, n))
            masks = np.array([[rs.random() < 0.3 for _ in range(n)] for _ in range(k)])
            masks[:, 0] = False
            edges = np.linspace(0.0, 7.0, op["bins"] + 1)
            fields = [np.ma.array(data[i], mask=masks[i]) for i in range(k)]
            res = gs.vario_estimate(pos, fields, bin_edges=edges, return_counts=True,
                                    estimator=_spell(op))
            f = np.where(masks, np.nan, data)
            ref = defining("unstructured", [f, edges, pos],
                           {"estimator_type": est[0], "distance_type": "e"})
            got_v, got_c = np.asarray(res[1]), np.asarray(res[2])
            name = "vario_estimate_stacked_masks"
        else:
            shape = (op["n"], op["m"]) + ((op["l"],) if op.get("l") else ())
            data = _vals(rs, shape)
            cells = int(np.prod(shape))
            mask = np.array([rs.random() < 0.25 for _ in range(cells)]).reshape(shape)
            miss = np.array([rs.random() < 0.2 for _ in range(cells)]).reshape(shape) & ~mask
            # data and mask need not share a memory layout (e.g. a transposed file + fresh mask)
            lay = op.get("layouts", "CC")
            if lay[0] == "F":
                data = np.asfortranarray(data)
            if lay[1] == "F":
                mask = np.asfortranarray(mask)
            ax = op.get("axis", 0)
            if ax >= len(shape):
                raise Inapplicable("no such axis")
            marker = op.get("no_data")
            kw = {}
            if marker is None:
                data[miss] = np.nan
            else:
                data[miss] = marker
                kw["no_data"] = marker
            field = np.ma.array(data, mask=mask)
            direction = ("xyz"[ax] if op.get("axis_by_name", True) else ax)
            res = gs.vario_estimate_axis(field, direction=direction, estimator=_spell(op), **kw)
            comb = np.moveaxis((mask | miss).astype(np.uint8), ax, 0).reshape(shape[ax], -1)
            clean = np.moveaxis(np.where(mask | miss, 0.0, data), ax, 0).reshape(shape[ax], -1)
            ref = defining("ma_structured", [clean, comb], {"estimator_type": est[0]})
            got_v, got_c = np.asarray(res), None
            ref = (ref[0], None)
            name = "vario_estimate_axis_masked_missing"
        self.ctx.observations += 1
        self.ctx.probe("wrapper." + name)
        bad = not close(got_v, ref[0], rtol=1e-10)
        if got_c is not None and not np.array_equal(got_c, ref[1]):
            bad = True
        if bad:
            raise Violation("C15.defining_sums." + name, maxdiff=maxdiff(got_v, ref[0]))

    def _krige_public(self, op):
        import gstools as gs
        from scipy.spatial.distance import cdist
        rs = random.Random(op["vseed"])
        d = op["dim"]
        model = getattr(gs, op["cls"])(dim=d, var=1.3, len_scale=1.7,
                                       anis=[0.6] * (d - 1) or 1.0,
                                       angles=[0.4] * (d * (d - 1) // 2) or 0.0)
        nc = op["ncond"]
        lattice = [(i, j, k) for i in range(4) for j in range(4) for k in range(3)]
        cpos = np.array(rs.sample(lattice, nc), dtype=np.double).T[:d] * 1.3
        if len({tuple(c) for c in cpos.T.tolist()}) != nc:
            raise Inapplicable("coincident conditions")
        mean = float(op["mean"])
        cval = {"random": _vals(rs, (nc,), -1, 3), "all_mean": np.full(nc, mean),
                "all_zero": np.zeros(nc)}[op["values"]]
        pos = np.concatenate([_vals(rs, (d, op["n"]), -2, 6), cpos[:, :1]], axis=1)
        kr = gs.krige.Simple(model, cpos.copy(), cval.copy(), mean=mean)
        field, var = kr(pos.copy(), chunk_size=op.get("chunk"), store=False)
        ci, pi = model.isometrize(cpos), model.isometrize(pos)
        C = model.covariance(cdist(ci.T, ci.T))
        k = model.covariance(cdist(ci.T, pi.T))
        w = np.linalg.solve(C, k)
        ref_f = mean + w.T @ (cval - mean)
        ref_v = model.sill - np.sum(k * w, axis=0)
        self.ctx.observations += 1
        self.ctx.probe("wrapper.krige_public")
        tol = 1e-9 * max(1.0, float(np.linalg.cond(C)))
        if not close(field, ref_f, rtol=1e-9, atol=tol * 3) or \
                not close(np.maximum(var, 0), np.maximum(ref_v, 0), rtol=1e-9, atol=tol * 3):
            raise Violation("C15.defining_sums.krige_public", values=op["values"],
                            maxdiff_field=maxdiff(field, ref_f), maxdiff_var=maxdiff(var, ref_v))

    def _fourier_public(self, op):
        import gstools as gs
        from gstools.random import RNG
        rs = random.Random(op["vseed"])
        d = op["dim"]
        model = getattr(gs, op["cls"])(dim=d, var=1.3, len_scale=1.7,
                                       anis=list(op["anis"]) or 1.0,
                                       angles=list(op["angles"]) or 0.0)
        period = [float(p) for p in op["period"]]
        srf = gs.SRF(model, generator="Fourier", period=period, mode_no=list(op["mode_no"]),
                     seed=op["seed"])
        top = max(period)
        pos = _vals(rs, (d, op["n"]), -2.0 * top, 3.0 * top)
        got = np.asarray(srf(pos.copy(), store=False), dtype=np.double)
        gen = srf.generator
        modes = np.asarray(gen.modes, dtype=np.double)
        rng = RNG(op["seed"])
        size = int(np.prod(gen.mode_no))
        z1 = rng.random.normal(size=size)
        z2 = rng.random.normal(size=size)
        delta_k = 2.0 * np.pi / np.asarray(period) * np.insert(np.asarray(model.anis), 0, 1.0)
        sf = np.sqrt(model.spectrum(np.linalg.norm(modes, axis=0)) * np.prod(delta_k))
        ref = defining("summate_fourier", [sf, modes, z1, z2, model.isometrize(pos)], {})[0]
        self.ctx.observations += 1
        self.ctx.probe("wrapper.fourier_public")
        if not close(got, ref, rtol=1e-9):
            raise Violation("C15.defining_sums.fourier_public", maxdiff=maxdiff(got, ref),
                            anis=op["anis"], period=period)

    def _vario_dirs(self, op):
        import gstools as gs
        if op.get("fourier"):
            return self._fourier_public(op)
        if op.get("krige"):
            return self._krige_public(op)
        if op.get("latlon"):
            return self._vario_latlon(op)
        if op.get("masked"):
            return self._vario_masked(op)
        rs = random.Random(op["vseed"])
        dim = op["dim"]
        n = op["n"]
        pos = _vals(rs, (dim, n), -3, 3)
        f = _vals(rs, (1, n))
        edges = np.linspace(0.0, 7.0, op["bins"] + 1)
        ang = [a for a in op["angles_deg"]]
        if op.get("grid"):
            lattice = [(i, j, k) for i in range(4) for j in range(4) for k in range(3)]
            pts = rs.sample(lattice, min(n, len(lattice)))
            pos = np.array(pts, dtype=np.double).T[:dim]
            f = _vals(rs, (1, pos.shape[1]))
            dirs = np.eye(dim)[[a for a in ang if 0 <= a < dim] or [0]]
        elif dim == 2:
            dirs = np.array([[math.cos(math.radians(a)), math.sin(math.radians(a))]
                             for a in ang])
        else:
            dirs = np.array([[math.cos(math.radians(a)), math.sin(math.radians(a)),
                              0.3 * ((i % 3) - 1)] for i, a in enumerate(ang)])
            dirs /= np.linalg.norm(dirs, axis=1)[:, None]
        tol = np.pi / 2 if op["tol_deg"] == 90 else math.radians(op["tol_deg"])
        bw = op.get("bw")
        extra = {}
        fin = f.copy()
        if op.get("no_data") is not None and not op.get("grid"):
            marker = float(op["no_data"])
            miss = [i for i in range(n) if rs.random() < 0.25] or [0]
            fin[0, miss] = marker
            f[0, np.isclose(fin[0], marker)] = np.nan   # (incl. values equal to it by chance)
            extra["no_data"] = marker
        if op.get("trend") and not op.get("grid"):
            c = float(op["trend"])
            extra["trend"] = lambda *x: c * x[0]
            f = f - c * pos[0]
        res = gs.vario_estimate(pos, fin[0], bin_edges=edges, direction=dirs, angles_tol=tol,
                                bandwidth=bw, return_counts=True, estimator=_spell(op), **extra)
        kw = {"angles_tol": tol, "bandwidth": -1.0 if bw is None else bw,
              "separate_dirs": False, "estimator_type": op["est"][0]}
        ref = defining("directional", [f, edges, pos, dirs], kw)
        self.ctx.observations += 1
        self.ctx.probe("wrapper.vario_estimate_directions")
        got_v, got_c = np.atleast_2d(res[1]), np.atleast_2d(res[2])
        if not np.array_equal(got_c, ref[1]) or not close(got_v, ref[0], rtol=1e-10):
            # classify: coincident points (distance 0) belong to every direction, but when the
            # direction bands are disjoint the estimator is told so (separate_dirs) and stops at
            # the first direction that takes a pair
            dup = pos.shape[1] != len({tuple(c) for c in pos.T.tolist()})
            if dup and dirs.shape[0] > 1:
                ref2 = defining("directional", [f, edges, pos, dirs],
                                dict(kw, separate_dirs=True))
                if np.array_equal(got_c, ref2[1]) and close(got_v, ref2[0], rtol=1e-10):
                    raise Violation(
                        "C15.defining_sums.vario_estimate_directional.coincident_points",
                        angles_deg=ang, tol_deg=op["tol_deg"], counts=got_c.tolist(),
                        want=ref[1].tolist())
            raise Violation("C15.defining_sums.vario_estimate_directional",
                            angles_deg=ang, tol_deg=op["tol_deg"], counts=got_c.tolist(),
                            want=ref[1].tolist())

    # -- (d)
    def _wrapper(self, op):
        kernel = op["kernel"]
        args, kw = make_inputs(kernel, op["size"], op["vseed"])
        from gstools.field import generator as G
        from gstools.krige import base as K
        from gstools.variogram import variogram as V
        nt = op.get("threads")
        est = kw.get("estimator_type", "m")
        try:
            got = self._wrapper_call(kernel, args, kw)(nt)
        except ValueError as e:
            if "too small" in str(e) or "!=" in str(e):
                raise Inapplicable("rejected shapes")
            raise Violation("C15.wrapper_raised." + kernel, error=str(e)[:100])
        got = got if isinstance(got, tuple) else (got,)
        # the wrapper's result must be bit-identical for every thread count
        call = self._wrapper_call(kernel, args, kw)
        rs = random.Random(op["vseed"] ^ 0x5bd1)
        for nt2 in sorted({1, rs.choice([None, 2, 3, 4, 8, 16]), 16}, key=str):
            if nt2 == nt:
                continue
            other = call(nt2)
            other = other if isinstance(other, tuple) else (other,)
            for a, b in zip(got, other):
                if not np.array_equal(np.asarray(a), np.asarray(b), equal_nan=True):
                    raise Violation("C15.thread_count_dependent." + kernel, threads=[nt, nt2],
                                    maxdiff=maxdiff(a, b), size=op["size"])
            self.ctx.probe("wrapper.thread_counts_compared")
        with np.errstate(all="ignore"):
            ref = defining(kernel, args, kw)
        self.ctx.observations += 1
        self.ctx.probe("wrapper." + kernel)
        for a, b in zip(got, ref):
            a = np.asarray(a)
            self.ctx.note("wrapper:" + kernel, a)
            scale = max(1.0, float(np.nanmax(np.abs(b))) if b.size and np.isfinite(b).any()
                        else 1.0)
            if a.shape != np.asarray(b).shape or not close(a, b, rtol=1e-10,
                                                           atol=1e-10 * scale):
                raise Violation("C15.defining_sums." + kernel, maxdiff=maxdiff(a, b),
                                size=op["size"], threads=nt)

    # -- (e)
    def _pipeline(self, op):
        import gstools as gs
        from gstools import config as gsconfig
        from gstools.field import generator as G
        from gstools.krige import base as K
        from gstools.variogram import variogram as V
        rs = random.Random(op["vseed"])
        what = op["what"]
        team, sched, policy = op["team"], op["sched"], op["policy"]
        sseed = [op["sseed"]]
        ctx = self.ctx

        def sim(kernel):
            def f(*args, **kw):
                args = list(args)
                names = {"summate": 4, "summate_incompr": 4, "summate_fourier": 5,
                         "calc_field_krige": 3, "calc_field_krige_and_variance": 3}
                if kernel in names and len(args) > names[kernel]:
                    kw["num_threads"] = args.pop()
                sseed[0] += 1
                try:
                    res, rt = simulate(kernel, [np.asarray(a) if isinstance(a, np.ndarray) else a
                                                for a in args], kw, team, sched, policy,
                                       sseed[0])
                except omprt.Race as e:
                    raise Violation("C15.race." + kernel, what=e.what, pipeline=what)
                ctx.probe("pipeline.sim_kernel_calls")
                ctx.probe("sim.steps", rt.steps)
                return res if len(res) > 1 else res[0]
            return f

        seams = [(G, "summate_c", "summate"), (G, "summate_incompr_c", "summate_incompr"),
                 (G, "summate_fourier_c", "summate_fourier"),
                 (K, "calc_field_krige_c", "calc_field_krige"),
                 (K, "calc_field_krige_and_variance_c", "calc_field_krige_and_variance"),
                 (V, "unstructured_c", "unstructured"), (V, "directional_c", "directional"),
                 (V, "structured_c", "structured"), (V, "ma_structured_c", "ma_structured")]

        def task():
            dim = 2
            n = 5
            pos = np.array([[round(rs.uniform(-3, 3), 2) for _ in range(n)] for _ in range(dim)])
            model = gs.Exponential(dim=dim, var=1.3, len_scale=1.7, anis=0.6, angles=0.4)
            if what == "srf":
                return gs.SRF(model, seed=7, mode_no=6)(pos)
            if what == "fourier":
                return gs.SRF(model, generator="Fourier", period=[9.0, 11.0], mode_no=[2, 4],
                              seed=7)(pos)
            if what == "incompr":
                return gs.SRF(model, generator="VectorField", seed=7, mode_no=5)(pos)
            if what in ("krige", "krige_novar"):
                cp = np.array([[-1.0, 0.5, 2.0, 1.1], [0.3, -2.0, 1.0, 2.2]])
                cv = np.array([0.4, 1.2, -0.3, 0.9])
                kr = gs.krige.Ordinary(model, cp, cv)
                if what == "krige":
                    f, v = kr(pos)
                    return np.concatenate([f, v])
                return kr(pos, return_var=False)
            fld = np.array([round(rs.uniform(-1, 2), 3) for _ in range(n)])
            if what == "vario_unstructured":
                return np.concatenate(gs.vario_estimate(pos, fld, bin_edges=[0, 1.5, 3, 6]))
            if what == "vario_directional":
                r = gs.vario_estimate(pos, fld, bin_edges=[0, 1.5, 3, 6], direction=np.eye(2),
                                      bandwidth=2.0)
                return np.concatenate([r[0], r[1].ravel()])
            grid = np.array([[round(rs.uniform(-1, 2), 3) for _ in range(3)] for _ in range(4)])
            if what == "vario_structured":
                return gs.vario_estimate_axis(grid, "x")
            gm = np.ma.array(grid, mask=[[False, True, False]] + [[False] * 3] * 3)
            return gs.vario_estimate_axis(gm, "x", estimator="cressie")

        state = random.getstate()
        old_nt = gsconfig.NUM_THREADS
        rs_state = rs.getstate()
        try:
            gsconfig.NUM_THREADS = op.get("threads")
            ctx.fired("num_threads")
            ref = np.asarray(task())
            rs.setstate(rs_state)
            present = [(mod, attr, kern) for mod, attr, kern in seams if hasattr(mod, attr)]
            if len(present) != len(seams):
                ctx.probe("pipeline.seam_missing", len(seams) - len(present))
            saved = [(mod, attr, getattr(mod, attr)) for mod, attr, _ in present]
            try:
                for mod, attr, kern in present:
                    setattr(mod, attr, sim(kern))
                got = np.asarray(task())
            finally:
                for mod, attr, orig in saved:
                    setattr(mod, attr, orig)
        finally:
            gsconfig.NUM_THREADS = old_nt
            random.setstate(state)
        ctx.observations += 1
        ctx.note("pipeline:" + what, got)
        if got.shape != ref.shape or not close(got, ref, rtol=1e-12):
            raise Violation("C15.pipeline." + what, maxdiff=maxdiff(got, ref),
                            threads=op.get("threads"))

    def state_key(self):
        return ["c15"]

    def close(self):
        pass


def _spell(op):
    """The estimator name as the caller spells it (names are matched case-insensitively)."""
    name = op["est"]
    return {0: name, 1: name.capitalize(), 2: name.upper()}[op.get("vseed", 0) % 3]


def signature(rec):
    return rec["violation"]["invariant"]


def prepare(tier):
    """Thorough tier: build the tree's generated C with -fopenmp (observation part)."""
    if tier != "thorough" and not os.environ.get("VERIF_C15_FORCE_OMPBUILD"):
        return {}
    from . import ompbuild
    bdir, err = ompbuild.build(REPO_SRC)
    if bdir is None:
        print("NOTE C15: OpenMP build skipped: %s" % err)
        return {"real_openmp_build": "not available: %s" % err}
    os.environ["VERIF_C15_OMPBUILD"] = bdir
    return {"real_openmp_build": "built from the tree's generated C into %s; observed, "
                                 "schedule not controlled" % bdir}


def simplify(config, ops):
    for i, op in enumerate(ops):
        if op.get("op") == "run":
            s = op["size"]
            for key, val in (("n", 2), ("m", 1), ("dim", 1), ("f", 1), ("dirs", 1)):
                if s.get(key, val) > val:
                    o2 = copy.deepcopy(ops)
                    o2[i]["size"][key] = val if key != "dim" or op["kernel"] not in (
                        "directional", "summate_incompr") else 2
                    yield config, o2
            if op["team"] not in (2,):
                o2 = copy.deepcopy(ops)
                o2[i]["team"] = 2
                yield config, o2
            for key, val in (("sched", "static"), ("policy", "roundrobin")):
                if op[key] != val:
                    o2 = copy.deepcopy(ops)
                    o2[i][key] = val
                    yield config, o2
            for key in ("nan", "sep"):
                if s.get(key):
                    o2 = copy.deepcopy(ops)
                    o2[i]["size"][key] = False
                    yield config, o2
        if op.get("op") == "wrapper":
            s = op["size"]
            for key in ("n", "m"):
                if s[key] > 2:
                    o2 = copy.deepcopy(ops)
                    o2[i]["size"][key] = max(2, s[key] // 4)
                    yield config, o2
