"""C10 - variogram fitting recovers generating parameters and honours constraints.

The other party: ``fit_variogram`` hands a closure to ``scipy.optimize.curve_fit``; every
evaluation of the closure writes into the model, the final state is written from ``popt``.
Which points are evaluated, in which order, how often, and whether ``popt`` was the last one
is decided by the optimizer.  The simulator owns that party through the seam
``gstools.covmodel.fit.curve_fit``:

* party "real":  recording wrapper around scipy's curve_fit (fault free configuration)
* party "sim" :  seeded simulated optimizer (adversarial order, extra evaluations after the
                 optimum was chosen, popt != last evaluated point)
Step invariant at every evaluation: closure value == variogram of a *fresh* model built with
the evaluated parameters.  Final invariants: fitted == popt, deselected/fixed unchanged,
var + nugget == sill, inside bounds, returned dict == model state.
"""
import copy

import numpy as np
import scipy.optimize

import gstools as gs
from gstools.covmodel import fit as gsfit
from gstools.tools.geometric import great_circle_to_chordal

from sim.core import Violation, Inapplicable, HarnessError, close, maxdiff, jdump
from . import common as cm

_SCIPY_CURVE_FIT = scipy.optimize.curve_fit

NAME = "fit"
PROPERTY = "C10"
TIERS = {"quick": (6500, 90.0), "thorough": (250000, 1800.0)}
CHANGE_KINDS = {"fit"}
OBSERVE_KINDS = {"fit"}
RULE = ("one run = 1-3 consecutive fit_variogram calls on one model object; each call has a "
        "selection (fitted / fixed value / deselected per parameter), sill (None / False / "
        "value), anis (fitted / fixed, directional data), weights, init_guess mode, method, "
        "loss, custom bounds, and an optimizer party: real scipy curve_fit behind a recording "
        "wrapper, or the simulated optimizer with a seeded evaluation schedule (points, "
        "finite-difference neighbours in shuffled order, popt choice, extra evaluations after "
        "the choice). distinct = (party, data kind, selection pattern, sill mode, schedule "
        "shape); non-trivial = at least one parameter is fitted and at least one closure "
        "evaluation happened")
COMPONENTS = {
    "real": ["gstools.covmodel.fit (working tree)", "gstools.covmodel models",
             "scipy.optimize.curve_fit (party 'real' only)", "numpy"],
    "stub": ["optimizer party in 'sim' runs (seeded simulated optimizer)",
             "recording wrapper around curve_fit in 'real' runs"],
}
ASSUMPTIONS = [
    "simulated optimizer is legal by curve_fit's contract: evaluates in-bounds points only, "
    "returns an in-bounds popt; nothing promises that popt is the last evaluated point",
    "real-optimizer recovery: noise-free data of the same family, start within +-20 % of the "
    "truth, shape parameters fixed; r2 >= 1-1e-6, curve within 1e-3*sill; parameter recovery "
    "(rtol 2e-2) only for identifiable selections",
]

FIT_MODELS = ["Gaussian", "Exponential", "Spherical", "Stable", "Matern", "Rational", "Cubic",
              "Circular", "HyperSpherical", "SuperSpherical", "JBessel", "Integral",
              "TPLStable", "TPLGaussian", "TPLExponential", "TPLSimple"]
TPL = ("TPLGaussian", "TPLExponential", "TPLStable")
# families for which recovery by a local optimizer from a +-20 % start is demanded; for the
# others (Integral, JBessel, truncated power law with len_low > 0) the least squares landscape
# has descent directions towards len_scale -> 0 even for exact data (traced with scipy TRF),
# which is a property of the optimisation problem, not of the fitting code
SMOOTH = ("Gaussian", "Exponential", "Stable", "Matern", "Rational")
WELL_POSED = ("Gaussian", "Exponential", "Spherical", "Cubic", "Circular", "Stable", "Matern",
              "HyperSpherical", "Rational", "SuperSpherical")


def is_nontrivial(ops):
    return any(o.get("op") == "fit" and not o.get("_skipped") for o in ops)


def gen_config(rng):
    dim = rng.choice([1, 2, 2, 3])
    kind = rng.choice(["iso", "iso", "dir", "latlon"])
    if dim == 1 and kind == "dir":
        kind = "iso"
    name = rng.choice(FIT_MODELS)
    while dim > cm.MAX_DIM.get(name, 99) or (kind == "latlon" and cm.MAX_DIM.get(name, 99) < 3):
        name = rng.choice(FIT_MODELS)
    true = cm.gen_model_spec(rng, 3 if kind == "latlon" else dim, name=name)
    true["nugget"] = rng.choice([0.0, 0.1, 0.3])
    if kind == "latlon":
        true["latlon"] = True
        true["geo_scale"] = rng.choice([1.0, 6371.0])
        true["anis"] = [1.0, 1.0]
        true["angles"] = [0.0, 0.0, 0.0]
        true["len_scale"] = rng.choice([0.3, 0.7, 1.0]) * true["geo_scale"]
    if kind != "dir":
        true["anis"] = [1.0] * len(true["anis"])
    nb = rng.randint(8, 30)
    L = true["len_scale"]
    x = [round(L * (0.1 + 3.5 * (i + 0.5) / nb), 6) for i in range(nb)]
    if kind == "latlon":
        x = [min(v, 3.0 * true["geo_scale"]) for v in x]
        x = sorted(set(x))
    return {"n_ops": rng.randint(1, 4), "dim": true["dim"], "kind": kind, "true": true,
            "x": x, "faults": rng.random() >= 0.4,
            "start_scale": {k: rng.choice([0.8, 0.9, 1.1, 1.2])
                            for k in ("var", "len_scale", "nugget")}}


def build(spec):
    cls = getattr(gs, spec["cls"])
    kw = dict(dim=spec["dim"], var=spec["var"], len_scale=spec["len_scale"],
              nugget=spec["nugget"], anis=list(spec["anis"]) if spec["anis"] else 1.0,
              angles=list(spec["angles"]) if spec["angles"] else 0.0)
    if spec.get("latlon"):
        kw.update(latlon=True, geo_scale=spec["geo_scale"])
    if spec.get("rescale") is not None:
        kw["rescale"] = spec["rescale"]
    kw.update(spec["opt"])
    return cls(**kw)


def read(m):
    return {"var": float(m.var), "len_scale": float(m.len_scale), "nugget": float(m.nugget),
            "anis": [float(a) for a in m.anis], "angles": [float(a) for a in m.angles],
            "opt": {o: float(getattr(m, o)) for o in m.opt_arg}}


def curve_of(spec_like, x_flat, is_dir, dim):
    """Variogram (or stacked vario_axis) of a fresh model."""
    m = build(spec_like)
    if is_dir:
        xs = x_flat[: x_flat.size // dim]
        return np.concatenate([m.vario_axis(xs, axis=i) for i in range(dim)])
    return m.variogram(x_flat)


class Party:
    """The optimizer, as seen by fit_variogram through the seam ``fit.curve_fit``."""

    def __init__(self, machine, op, pre, expect):
        self.mc = machine
        self.op = op
        self.pre = pre
        self.expect = expect  # object that maps a parameter vector to an expected state
        self.evals = []
        self.popt = None
        self.called = False

    def __call__(self, f, xdata, ydata, p0, bounds, **kw):
        self.called = True
        self.f = f
        self.x = np.asarray(xdata, dtype=np.double)
        self.kw = kw
        lo, hi = np.asarray(bounds[0], dtype=float), np.asarray(bounds[1], dtype=float)
        self.lo, self.hi = lo, hi
        self.p0 = np.asarray(p0, dtype=float)
        # the data reach the optimizer as documented: bin centres repeated per direction, the
        # directional variograms stacked one after the other (whatever the caller's memory
        # layout), lat-lon lags converted to chordal distances once
        mc = self.mc
        want_y = np.asarray(getattr(mc, "y_handed", mc.y), dtype=np.double).reshape(-1)
        want_x = np.tile(mc.x, mc.dim) if mc.kind == "dir" else (
            great_circle_to_chordal(mc.x, mc.true.geo_scale) if mc.kind == "latlon" else mc.x)
        if not close(np.asarray(ydata, dtype=np.double).reshape(-1), want_y, rtol=1e-13) or \
                not close(self.x.reshape(-1), want_x, rtol=1e-13):
            raise Violation("C10.data_handed_to_optimizer", kind=mc.kind,
                            layout=self.op["kwargs"].get("data_layout"))
        wv = getattr(mc, "w_handed", None)
        if wv is not None:
            # weights given per bin: the optimizer gets sigma = 1 / weight per data point (the
            # bins repeated per direction), a weight of zero takes the bin out (sigma = inf)
            with np.errstate(divide="ignore"):
                want_s = 1.0 / (np.tile(wv, mc.dim) if mc.kind == "dir" else wv)
            got_s = kw.get("sigma")
            if got_s is None or not close(np.asarray(got_s, dtype=np.double).reshape(-1),
                                          want_s, rtol=1e-13):
                raise Violation("C10.weights_handed_to_optimizer", kind=mc.kind,
                                weights=self.op["kwargs"].get("weights"),
                                zero_weights=int(np.sum(wv == 0)))
            mc.ctx.probe("sigma_checked")
        if len(self.p0) != self.expect.n:
            raise Violation("C10.param_count", got=len(self.p0), want=self.expect.n)
        # the box handed to the optimizer never reaches outside the parameter bounds of the
        # model (a prescribed sill may only narrow it)
        ex = self.expect
        for j, name in enumerate(ex.order):
            b = ex.bounds.get(name)
            if b is not None and (lo[j] < b[0] - 1e-12 * max(1.0, abs(b[0]))
                                  or hi[j] > b[1] + 1e-12 * max(1.0, abs(b[1]))):
                raise Violation("C10.optimizer_box_outside_bounds", param=name,
                                box=[float(lo[j]), float(hi[j])], bounds=list(b[:2]))
        if ex.fit_anis:
            b = ex.bounds.get("anis")
            for j in range(len(ex.order), ex.n):
                if b is not None and (lo[j] < b[0] - 1e-12 * max(1.0, abs(b[0]))
                                      or hi[j] > b[1] + 1e-12 * max(1.0, abs(b[1]))):
                    raise Violation("C10.optimizer_box_outside_bounds", param="anis",
                                    box=[float(lo[j]), float(hi[j])], bounds=list(b[:2]))
        if np.any(self.p0 <= lo) or np.any(self.p0 >= hi):
            raise Violation("C10.p0_outside_bounds", p0=self.p0.tolist(), lo=lo.tolist(),
                            hi=hi.tolist())
        if self.op["party"] == "real":
            return self._real(f, xdata, ydata, p0, bounds, kw)
        return self._sim(ydata)

    # ---- every evaluation goes through here (both parties)
    def evaluate(self, p):
        p = np.asarray(p, dtype=float)
        out = self.f(self.x, *p)
        self.evals.append(p.tolist())
        self.mc.ctx.probe("closure_evaluations")
        exp = self.expect.curve(p, self.x)
        if exp is None:  # punished point (nugget outside its bounds for a fixed sill)
            if not np.all(np.isinf(out)):
                raise Violation("C10.punishment_missing", point=p.tolist())
            return out
        if not close(out, exp, rtol=1e-9):
            raise Violation("C10.residual_function", point=p.tolist(),
                            maxdiff=maxdiff(out, exp), n_eval=len(self.evals))
        return out

    def _real(self, f, xdata, ydata, p0, bounds, kw):
        def wrapped(x, *p):
            if x.shape != self.x.shape or not np.array_equal(x, self.x):
                return f(x, *p)
            return self.evaluate(p)
        popt, pcov = _SCIPY_CURVE_FIT(f=wrapped, xdata=xdata, ydata=ydata, p0=p0,
                                      bounds=bounds, **kw)
        self.popt = np.asarray(popt, dtype=float)
        return popt, pcov

    def _point(self, frac):
        lo, hi = self.expect.box(self.lo, self.hi)
        u = np.asarray((list(frac) * 3)[: self.expect.n], dtype=float)
        u = np.clip(u, 0.02, 0.98)
        return lo + u * (hi - lo)

    def _sim(self, ydata):
        sched = self.op.get("schedule", [])
        ctx = self.mc.ctx
        self.evaluate(self.p0)
        chosen = None
        for act in sched:
            a = act["a"]
            if a == "eval":
                self.evaluate(self._point(act["u"]))
            elif a == "fd":
                base = np.array(self.evals[act["base"] % len(self.evals)])
                order = list(range(self.expect.n))
                order = [order[i % len(order)] for i in act["order"]][: self.expect.n] or order
                for j in order:
                    q = base.copy()
                    h = 1.5e-8 * max(1.0, abs(q[j]))
                    q[j] = q[j] + h if q[j] + h < self.hi[j] else q[j] - h
                    self.evaluate(q)
                ctx.fired("optimizer_order")
            elif a == "punished":
                # a point inside the optimizer's box where sill - var falls below the lower
                # nugget bound: GSTools must answer with infinite residuals (documented
                # "punishment"), never with a silently different curve
                ex = self.expect
                nb = ex.bounds["nugget"]
                if ex.constrain and ex.fitted["var"] and nb[0] > 0 and "var" in ex.order:
                    q = self._point(act["u"])
                    j = ex.order.index("var")
                    v = ex.sill - 0.5 * nb[0]
                    if self.lo[j] < v < self.hi[j]:
                        q[j] = v
                        self.evaluate(q)
                        ctx.probe("punished_point_evaluated")
            elif a == "raise":
                # curve_fit gives up (as scipy does with "Optimal parameters not found"): the
                # fit fails half-way, the model keeps the last evaluated parameters
                ctx.fired("optimizer_raises")
                raise RuntimeError("Optimal parameters not found: simulated optimizer gave up")
            elif a == "choose":
                if act["how"] == "point":
                    chosen = self._point(act["u"])
                elif act["how"] == "evaluated":
                    chosen = np.array(self.evals[act["i"] % len(self.evals)])
                else:
                    chosen = self.expect.truth(self.lo, self.hi)
                    if chosen is None:
                        chosen = self._point(act.get("u", [0.5]))
            if chosen is not None and a != "choose":
                ctx.fired("optimizer_extra_evals")
        if chosen is None:
            chosen = np.array(self.evals[-1])
        if self.expect.curve(chosen, self.x) is None:
            # a legal optimizer never returns a point where the objective is infinite
            ok = [e for e in self.evals if self.expect.curve(np.array(e), self.x) is not None]
            if not ok:
                raise Inapplicable("no feasible point for this sill / bounds combination")
            chosen = np.array(ok[-1])
        if self.evals[-1] != chosen.tolist():
            ctx.fired("optimizer_popt_not_last")
        self.popt = chosen
        return chosen.copy(), np.eye(len(chosen))


class Expect:
    """Reference semantics of selection / sill handling: parameter vector -> model state."""

    def __init__(self, machine, op, pre, model):
        self.mc = machine
        kw = op["kwargs"]
        self.dim = model.dim
        self.cls = machine.cfg["true"]["cls"]
        self.base = copy.deepcopy(machine.cfg["true"])
        if machine.rescale_now is not None:
            self.base["rescale"] = machine.rescale_now
        self.opt_names = list(model.opt_arg)
        self.bounds = {k: list(v) for k, v in model.arg_bounds.items()}
        sel = kw.get("select", {})
        # state after the fixed values were applied (documented: given values are set)
        # (applied to a copy of the model: for truncated power law models the variance follows
        # len_scale / hurst / len_low, which is C14's documented semantics, not C10's)
        tmp = copy.deepcopy(model)
        var_fixed = None
        for p, v in sel.items():
            if not isinstance(v, bool):
                if p == "var":
                    var_fixed = float(v)
                else:
                    setattr(tmp, p, float(v))
        if var_fixed is not None:
            tmp.var = var_fixed
        st = read(tmp)
        self.fitted = {p: (sel.get(p, True) is True) for p in
                       ["var", "len_scale", "nugget"] + self.opt_names}
        sill = kw.get("sill")
        self.constrain = sill is not None and sill is not True
        self.sill = None
        if self.constrain:
            self.sill = st["var"] + st["nugget"] if sill is False else float(sill)
            fv, fn = self.fitted["var"], self.fitted["nugget"]
            nlow = self.bounds["nugget"][0]
            if not fv and not fn:
                if st["var"] > self.sill:
                    st["nugget"] = nlow
                    st["var"] = self.sill - nlow
                else:
                    st["nugget"] = self.sill - st["var"]
            elif not fv:
                st["nugget"] = self.sill - st["var"]
                self.fitted["nugget"] = False
            elif not fn:
                st["var"] = self.sill - st["nugget"]
                self.fitted["var"] = False
            else:
                self.fitted["nugget"] = False  # derived: sill - var
        self.is_dir = machine.cfg["kind"] == "dir"
        anis = kw.get("anis", True)
        self.fit_anis = (anis is True) and self.is_dir
        if not isinstance(anis, bool):
            a = anis if isinstance(anis, list) else [anis]
            st["anis"] = [1.0] * (self.dim - 1 - len(a)) + [float(v) for v in a]
        self.st = st
        self.order = [p for p in ["var", "len_scale", "nugget"] if self.fitted[p]] + \
                     [o for o in self.opt_names if self.fitted[o]]
        self.n = len(self.order) + (self.dim - 1 if self.fit_anis else 0)

    def state_for(self, p):
        """Expected parameter state when the optimizer is at vector p."""
        st = copy.deepcopy(self.st)
        for name, v in zip(self.order, p):
            if name in ("var", "len_scale", "nugget"):
                st[name] = float(v)
            else:
                st["opt"][name] = float(v)
        if self.fit_anis:
            st["anis"] = [float(v) for v in p[len(self.order):]]
        if self.constrain and self.fitted["var"]:
            st["nugget"] = self.sill - st["var"]
        return st

    def spec_for(self, st):
        spec = copy.deepcopy(self.base)
        spec.update(var=st["var"], len_scale=st["len_scale"], nugget=st["nugget"],
                    anis=st["anis"], opt=st["opt"])
        return spec

    def curve(self, p, x):
        st = self.state_for(p)
        b = self.bounds["nugget"]
        if self.constrain and self.fitted["var"]:
            n = st["nugget"]
            typ = b[2] if len(b) > 2 else "cc"
            bad = (n < b[0] if typ[0] == "c" else n <= b[0]) or \
                  (n > b[1] if typ[1] == "c" else n >= b[1])
            if bad:
                return None
        return curve_of(self.spec_for(st), x, self.is_dir, self.dim)

    def box(self, lo, hi):
        """Reasonable finite box inside the optimizer bounds."""
        blo, bhi = [], []
        names = self.order + (["anis"] * (self.dim - 1) if self.fit_anis else [])
        L = self.base["len_scale"]
        for nme, l, h in zip(names, lo, hi):
            rl, rh = {"var": (0.2, 5.0), "len_scale": (0.3 * L, 4 * L), "nugget": (0.0, 1.0),
                      "anis": (0.2, 3.0)}.get(nme, (l, h))
            if nme in self.opt_names:
                rl, rh = max(l, -5.0), min(h, l + 3.0 if np.isfinite(l) else 5.0)
                if self.cls in TPL and nme == "len_low":
                    rh = min(rh, L)
            rl, rh = max(rl, l), min(rh, h)
            if nme == "var" and self.constrain:
                nb = self.bounds["nugget"]
                rl = max(rl, self.sill - nb[1] + 1e-9 * max(1.0, self.sill))
                rh = min(rh, self.sill - nb[0])
            if not rl < rh:
                rl, rh = l, h
            blo.append(rl)
            bhi.append(rh)
        return np.array(blo), np.array(bhi)

    def truth(self, lo, hi):
        t = self.mc.cfg["true"]
        vec = []
        for name in self.order:
            vec.append(t[name] if name in ("var", "len_scale", "nugget") else t["opt"][name])
        if self.fit_anis:
            vec += list(t["anis"])
        vec = np.array(vec, dtype=float)
        if np.any(vec <= lo) or np.any(vec >= hi):
            return None
        return vec


class Machine:
    def __init__(self, config, ctx):
        self.cfg = config
        self.ctx = ctx
        self.kind = config["kind"]
        self.true = build(config["true"])
        self.dim = self.true.dim
        x = np.array(config["x"], dtype=np.double)
        self.x = x
        if self.kind == "dir":
            self.y = np.array([self.true.vario_axis(x, axis=i) for i in range(self.dim)])
        elif self.kind == "latlon":
            self.y = self.true.variogram(great_circle_to_chordal(x, self.true.geo_scale))
        else:
            self.y = self.true.variogram(x)
        start = copy.deepcopy(config["true"])
        for k, f in sorted(config["start_scale"].items()):
            start[k] = start[k] * f if not (k == "nugget" and start[k] == 0) else 0.0
        self.start = start
        self.model = build(start)
        self.shared_cfk = {"ftol": 1e-10}   # one options dict object reused by the caller
        self.rescale_now = None
        self._orig = _SCIPY_CURVE_FIT
        self.n_fit = 0

    # ------------------------------------------------------------------ op generation
    def gen_op(self, rng):
        t = self.cfg["true"]
        sim = self.cfg["faults"] and rng.random() < 0.75
        kw = {}
        sel = {}
        names = ["var", "len_scale", "nugget"] + sorted(t["opt"])
        for p in names:
            r = rng.random()
            is_opt = p in t["opt"]
            if sim:
                mode = "fit" if r < 0.55 else ("fixed" if r < 0.8 else "off")
            else:
                # fault free: shape parameters are not identifiable in general -> not fitted
                mode = ("fixed" if r < 0.6 else "off") if is_opt else \
                    ("fit" if r < 0.7 else ("fixed" if r < 0.85 else "off"))
            if mode == "fixed":
                sel[p] = t["opt"][p] if is_opt else (t[p] if p != "nugget" or sim else t[p])
                if p == "nugget":
                    sel[p] = float(t["nugget"])
            elif mode == "off":
                sel[p] = False
        if not sim and "nugget" not in sel and t["nugget"] == 0.0 and rng.random() < 0.5:
            sel["nugget"] = False
        # explicit "True" flags (documented: parameters are fitted by default, True is allowed)
        for p in names:
            if p not in sel and rng.random() < 0.15:
                sel[p] = True
        kw["select"] = sel
        order = sorted(sel)
        rng.shuffle(order)
        kw["select_order"] = order  # keyword order of the call (JSON would sort the keys)
        r = rng.random()
        if r < 0.45:
            kw["sill"] = None
        elif r < 0.6:
            kw["sill"] = False
        else:
            kw["sill"] = float(t["var"] + t["nugget"]) if not sim else \
                rng.choice([t["var"] + t["nugget"], 2.0, 3.3])
        if self.kind == "dir":
            r = rng.random()
            kw["anis"] = True if r < 0.6 else (False if r < 0.8 else list(t["anis"]))
        kw["weights"] = rng.choice([None, None, "inv", "array", "callable", "list", "mask01",
                                    "mask01"])
        if kw["weights"] == "mask01":
            # counts-like weights: one or two bins carry weight 0 and a garbage value (the
            # documented use: weights=counts with empty bins); they must not take part
            nb = len(self.x)
            kw["mask_bins"] = sorted(rng.sample(range(2, nb - 1), min(2, max(1, nb // 6))))
        kw["init_guess"] = rng.choice(["current", "current", "dict", "default"] if sim
                                      else ["current", "current", "dict"])
        kw["method"] = rng.choice(["trf", "trf", "dogbox"])
        kw["loss"] = rng.choice(["soft_l1", "linear", "huber"])
        kw["bounds"] = rng.random() < 0.3
        kw["var_low_frac"] = rng.choice([0.0, 0.0, 0.2])
        kw["nugget_low"] = rng.choice([0.0, 0.0, 0.05, 0.2])
        kw["shared_kwargs"] = rng.random() < 0.4
        kw["data_layout"] = rng.choice(["C", "C", "F", "strided", "list"])
        if sim and rng.random() < 0.15:
            kw["rescale"] = rng.choice([0.5, 1.0, 2.0, 3.0])
        op = {"op": "fit", "party": "sim" if sim else "real", "kwargs": kw}
        if sim:
            sched = []
            for _ in range(rng.randint(0, 5)):
                r = rng.random()
                if r < 0.05:
                    sched.append({"a": "raise"})
                elif r < 0.15:
                    sched.append({"a": "punished", "u": [round(rng.random(), 3) for _ in range(8)]})
                elif r < 0.55:
                    sched.append({"a": "eval", "u": [round(rng.random(), 3) for _ in range(8)]})
                elif r < 0.8:
                    sched.append({"a": "fd", "base": rng.randint(0, 9),
                                  "order": rng.sample(range(8), 8)})
                else:
                    how = rng.choice(["point", "evaluated", "truth"])
                    sched.append({"a": "choose", "how": how, "i": rng.randint(0, 9),
                                  "u": [round(rng.random(), 3) for _ in range(8)]})
            op["schedule"] = sched
        return op

    # ------------------------------------------------------------------ execution
    def apply(self, op):
        if op["op"] != "fit":
            raise HarnessError(str(op))
        m = self.model
        kw = op["kwargs"]
        t = self.cfg["true"]
        raw_sel = kw.get("select", {})
        order = [k for k in kw.get("select_order", []) if k in raw_sel] + \
                [k for k in sorted(raw_sel) if k not in kw.get("select_order", [])]
        sel = {k: raw_sel[k] for k in order
               if k in ("var", "len_scale", "nugget") or k in m.opt_arg}
        kw = dict(kw, select=sel)
        op_local = dict(op, kwargs=kw)
        if kw.get("bounds") and self.cfg["true"]["cls"] not in TPL:
            # (TPL: the variance follows len_scale/hurst/len_low, so a user bound on var can be
            # crossed transiently inside the closure - observation recorded in DESIGN.md)
            # custom (narrower) bounds that contain truth and the current state
            cur = read(m)
            vmax = max(cur["var"], t["var"]) * 4 + 1
            lmax = max(cur["len_scale"], t["len_scale"]) * 6
            nlow = kw.get("nugget_low", 0.0)
            if nlow > min(cur["nugget"], t["nugget"]):
                nlow = 0.0
            vlow = max(1e-3, kw.get("var_low_frac", 0.0) * min(cur["var"], t["var"]))
            if self.kind == "dir" and m.dim > 1:
                a_all = list(cur["anis"]) + list(t["anis"])
                m.set_arg_bounds(anis=[min(a_all) * 0.2, max(a_all) * 5.0])
            m.set_arg_bounds(var=[vlow, vmax], len_scale=[1e-3 * t["len_scale"], lmax],
                             nugget=[nlow, max(cur["nugget"], t["nugget"]) * 3 + 1.0, "cc"])
            self.ctx.probe("custom_bounds")
        if op["party"] == "real":
            # fault free configuration = "from a start near the truth": the user assigns
            # start values (+-20 %) before calling fit_variogram
            if self.rescale_now is not None:
                m.rescale = t.get("rescale")  # back to the rescaling the data were made with
                self.rescale_now = None
            for k in ("len_scale", "nugget", "var"):
                f = self.cfg["start_scale"][k]
                v = t[k] * f
                if k in sel and not isinstance(sel[k], bool):
                    continue
                try:
                    setattr(m, k, v)
                except ValueError:
                    raise Inapplicable("start value outside custom bounds")
            for o, v in t["opt"].items():
                setattr(m, o, v)
            if self.kind == "dir":
                m.anis = [a * 1.1 for a in t["anis"]]
        if kw.get("rescale") is not None and op["party"] == "sim":
            # the user changes the rescaling factor of the (already evaluated) model
            m.variogram(self.x[:2])
            try:
                m.rescale = kw["rescale"]
                m.check_arg_bounds()
            except ValueError:
                self.model = build(self.start)
                self.rescale_now = None
                raise Inapplicable("rescale pushes a derived value out of bounds")
            self.rescale_now = float(kw["rescale"])
            self.ctx.probe("rescale_changed_before_fit")
        pre = read(m)
        # reject selections the documentation declares an error, before building the oracle
        sill = kw.get("sill")
        call = dict(sill=sill, method=kw["method"], loss=kw["loss"], return_r2=True)
        call.update(sel)
        if self.kind == "dir":
            call["anis"] = kw.get("anis", True)
        w = kw.get("weights")
        if w == "array":
            call["weights"] = 1.0 / (1.0 + self.x / self.x.max())
        elif w == "list":  # documented: "list: weights given per bin"
            call["weights"] = (1.0 / (1.0 + self.x / self.x.max())).tolist()
        elif w == "mask01":
            wv = np.ones(len(self.x))
            wv[[i for i in kw.get("mask_bins", []) if 0 <= i < len(wv)]] = 0.0
            call["weights"] = wv
        elif w == "callable":
            call["weights"] = lambda x: 1.0 / (1.0 + x)
        elif w == "inv":
            call["weights"] = "inv"
        if kw.get("shared_kwargs"):
            call["curve_fit_kwargs"] = self.shared_cfk
            self.ctx.probe("shared_curve_fit_kwargs")
        ig = kw.get("init_guess")
        if ig == "dict":
            call["init_guess"] = {"len_scale": pre["len_scale"] * 1.05, "default": "current"}
        else:
            call["init_guess"] = ig
        try:
            exp = Expect(self, op_local, pre, m)
        except Exception as e:
            raise HarnessError("Expect: %r" % (e,))
        if exp.constrain:
            vb, nb = exp.bounds["var"], exp.bounds["nugget"]
            if not (vb[0] + nb[0] <= exp.sill <= vb[1] + nb[1]):
                raise Inapplicable("sill outside bounds")
            if exp.st["nugget"] < nb[0] or exp.st["var"] <= max(0.0, vb[0]) or \
                    exp.st["nugget"] > nb[1] or exp.st["var"] > vb[1]:
                raise Inapplicable("fixed var/nugget not compatible with the sill")
        if exp.n == 0:
            raise Inapplicable("nothing to fit")
        party = Party(self, op_local, pre, exp)
        # the optimizer seam: the name imported into gstools.covmodel.fit and, should a
        # refactoring call scipy.optimize.curve_fit through the module, that one as well
        gsfit.curve_fit = party
        scipy.optimize.curve_fit = party
        xd, yd = self.x.copy(), self.y.copy()
        if w == "mask01":
            yd[..., np.flatnonzero(call["weights"] == 0.0)] = 0.0   # garbage in the empty bins
        self.y_handed = yd.copy()
        self.w_handed = np.asarray(call["weights"], dtype=np.double).copy() \
            if w in ("array", "list", "mask01") else None
        if w in ("array", "mask01"):
            # the caller keeps ONE weights array per kind and hands the same object to every
            # fit of the history (expected values are taken from the pristine copy above)
            store = self.__dict__.setdefault("caller_weights", {})
            key = (w, tuple(kw.get("mask_bins", [])))
            if key in store:
                self.ctx.probe("weights_array_reused")
            call["weights"] = store.setdefault(key, call["weights"])
        lay = kw.get("data_layout", "C")
        if lay == "F" and yd.ndim == 2:
            yd = np.asfortranarray(yd)          # e.g. the transpose of an (n_bins, dim) table
        elif lay == "strided":
            bx = np.zeros(xd.size * 2)
            bx[::2] = xd
            xd = bx[::2]
            if yd.ndim == 2:
                by = np.zeros((yd.shape[0], yd.shape[1] * 2))
                by[:, ::2] = yd
                yd = by[:, ::2]
        elif lay == "list":
            xd, yd = xd.tolist(), yd.tolist()
        try:
            res = m.fit_variogram(xd, yd, **call)
        except ValueError as e:
            msg = str(e)
            # the failed call may have left a rejected value in the model (write, then
            # check): the user continues with a new model object
            self.model = build(self.start)
            self.rescale_now = None
            if not party.called and ("sill" in msg or "should be less" in msg):
                raise Inapplicable("documented ValueError: " + msg[:60])
            if "x0" in msg and "infeasible" in msg or "Residuals are not finite" in msg:
                raise Inapplicable("optimizer refused start: " + msg[:60])
            if op["party"] == "real" and self.cfg["true"]["cls"] not in WELL_POSED:
                self.ctx.probe("real_fit_diverged_on_ill_posed_family")
                raise Inapplicable("real optimizer diverged: " + msg[:60])
            raise Violation("C10.fit_raised", error=msg[:160], party=op["party"],
                            method=kw.get("method"))
        except (AttributeError, TypeError, IndexError, KeyError) as e:
            # a documented argument form made the library stumble: the fit did not happen
            self.model = build(self.start)
            self.rescale_now = None
            raise Violation("C10.fit_raised", error="%s: %s" % (type(e).__name__, str(e)[:120]),
                            party=op["party"], method=kw.get("method"),
                            weights=kw.get("weights"), kind=self.kind)
        except RuntimeError as e:
            if "simulated optimizer gave up" in str(e):
                # fail-and-continue: the same model object is used for the next fit; whatever
                # it holds now is that fit's pre-state
                self.ctx.probe("fit_failed_midway_model_kept")
                try:
                    read(self.model)
                    self.model.check_arg_bounds()
                except Exception:
                    self.model = build(self.start)
                    self.rescale_now = None
                raise Inapplicable("simulated optimizer gave up")
            self.model = build(self.start)
            self.rescale_now = None
            raise Inapplicable("optimizer did not converge: %s" % str(e)[:60])
        finally:
            gsfit.curve_fit = self._orig
            scipy.optimize.curve_fit = _SCIPY_CURVE_FIT
        self.n_fit += 1
        self.ctx.observations += 1
        fit_para, pcov, r2 = res
        popt = party.popt
        post = read(m)
        self.ctx.note("fit", [post["var"], post["len_scale"], post["nugget"]], post["anis"],
                      [post["opt"][o] for o in sorted(post["opt"])])
        want = exp.state_for(popt)
        tol = 1e-12
        # ---- fitted parameters equal popt, deselected / fixed are unchanged
        for name in ["var", "len_scale", "nugget"]:
            w_, g_ = want[name], post[name]
            if abs(w_ - g_) > tol * max(1.0, abs(w_)):
                kindp = "fitted" if exp.fitted[name] else (
                    "derived_from_sill" if exp.constrain and name in ("var", "nugget") else
                    "deselected_or_fixed")
                raise Violation("C10.final_state." + name, kind=kindp, want=w_, got=g_,
                                party=op["party"], cls=self.cfg["true"]["cls"],
                                popt_last=party.evals[-1] == popt.tolist())
        for o in sorted(want["opt"]):
            if abs(want["opt"][o] - post["opt"][o]) > tol * max(1.0, abs(want["opt"][o])):
                raise Violation("C10.final_state.opt", name=o, want=want["opt"][o],
                                got=post["opt"][o], fitted=exp.fitted[o])
        if not close(post["anis"], want["anis"], rtol=1e-12):
            raise Violation("C10.final_state.anis", want=want["anis"], got=post["anis"],
                            fit_anis=exp.fit_anis)
        if not close(post["angles"], pre["angles"], rtol=0, atol=0):
            raise Violation("C10.final_state.angles")
        # ---- prescribed sill is met exactly
        if exp.constrain:
            s = post["var"] + post["nugget"]
            if abs(s - exp.sill) > 1e-12 * max(1.0, abs(exp.sill)):
                raise Violation("C10.sill_exact", sill=exp.sill, got=s, party=op["party"],
                                diff=s - exp.sill)
            self.ctx.probe("fit.sill_constrained")
        # ---- inside bounds
        from .covmodel import in_bounds
        for p, b in sorted(m.arg_bounds.items()):
            if np.size(getattr(m, p)) and not in_bounds(getattr(m, p), b):
                raise Violation("C10.outside_bounds", param=p,
                                value=np.asarray(getattr(m, p)).tolist(), bounds=list(b))
        # ---- returned dict == model state
        for k, v in fit_para.items():
            mv = getattr(m, k)
            if not close(v, mv, rtol=1e-12):
                raise Violation("C10.returned_dict", key=k, returned=np.asarray(v).tolist(),
                                model=np.asarray(mv).tolist(), party=op["party"])
        # (directional data: the ratios are part of the state the call determines)
        for k in ["var", "len_scale", "nugget"] + list(m.opt_arg) + (
                ["anis"] if self.kind == "dir" else []):
            if k not in fit_para:
                raise Violation("C10.returned_dict_missing", key=k)
        # ---- recovery (fault free party only)
        if op["party"] == "real":
            self._check_recovery(exp, post, r2, kw, party)

    def _check_recovery(self, exp, post, r2, kw, party):
        t = self.cfg["true"]
        sill = t["var"] + t["nugget"]
        # "from a start near the truth": the true parameter vector must lie strictly inside the
        # optimizer's box (a start on/over a bound is replaced by GSTools with the middle of the
        # box) and the start actually handed to the optimizer must be within 30 % of it
        tv = exp.truth(party.lo, party.hi)
        if tv is None:
            self.ctx.probe("recovery.truth_on_boundary")
            return
        if np.any(np.abs(party.p0 - tv) > 0.3 * np.abs(tv) + 1e-12):
            self.ctx.probe("recovery.start_not_near_truth")
            return
        # is the truth reachable under this selection?
        pre_ok = True
        for name in ["var", "len_scale", "nugget"]:
            if not exp.fitted[name] and not (exp.constrain and name in ("var", "nugget")):
                if abs(exp.st[name] - t[name]) > 1e-9 * max(1, abs(t[name])):
                    pre_ok = False
        if exp.constrain:
            if abs(exp.sill - sill) > 1e-9 * sill:
                pre_ok = False
            for name in ("var", "nugget"):
                if not exp.fitted[name] and not (exp.fitted["var"] and name == "nugget"):
                    if abs(exp.st[name] - t[name]) > 1e-9 * max(1, abs(t[name])):
                        pre_ok = False
        for o in t["opt"]:
            if abs(exp.st["opt"][o] - t["opt"][o]) > 1e-12:
                pre_ok = False
        if self.kind == "dir" and not exp.fit_anis and not close(exp.st["anis"], t["anis"]):
            pre_ok = False
        if not pre_ok:
            self.ctx.probe("recovery.truth_not_reachable")
            return
        self.ctx.probe("recovery.checked")
        if t["cls"] not in WELL_POSED:
            self.ctx.probe("recovery.not_demanded_ill_posed_family")
            return
        if exp.fitted["nugget"] and t["nugget"] == 0.0:
            # a start value on the bound is replaced by GSTools with the default guess
            # (mean of the data): that is not "a start near the truth"
            self.ctx.probe("recovery.start_on_bound_not_near_truth")
            return
        masked = kw.get("weights") == "mask01"
        if kw.get("weights") is not None and not masked:
            # weights rescale the residuals (1/(1+x) with x in km is ~1e-3) and scipy's
            # absolute gtol=1e-8 then stops far from the optimum: recovery is only demanded
            # from unweighted fits; the final-state invariants above hold for all fits
            self.ctx.probe("recovery.skipped_weighted")
            return
        if kw.get("method") != "trf":
            # dogbox stops early on kinked (compact support) models and steps onto bounds
            # (see the open known finding): recovery is demanded from the default method only
            self.ctx.probe("recovery.skipped_dogbox")
            return
        smooth = t["cls"] in SMOOTH
        # compact-support models have a kink at the range: a local optimizer may stall next to
        # the optimum (traced: r2 = 0.998), so only a coarse threshold is sound for them
        if not smooth and "len_scale" in exp.order and \
                np.isfinite(party.hi[exp.order.index("len_scale")]):
            # user-set finite bounds: the trust region method scales its variables by the box
            # and was traced stalling on kinked (compact support) directional objectives with
            # one ratio never moved (r2 = 0.96) where the unbounded fit converges - a local
            # optimizer's right; the coarse demand is made without custom bounds only
            self.ctx.probe("recovery.compact_support_with_custom_bounds_not_demanded")
            return
        # (r2 is computed over all bins: with garbage in zero-weight bins it says nothing)
        if not masked and not r2 >= (1 - 1e-6 if smooth else 0.99):
            raise Violation("C10.recovery.r2", r2=float(r2), cls=t["cls"], kind=self.kind,
                            method=kw.get("method"), loss=kw.get("loss"))
        if not smooth:
            self.ctx.probe("recovery.coarse_only_compact_support")
            return
        xf = np.tile(self.x, self.dim) if self.kind == "dir" else (
            great_circle_to_chordal(self.x, self.true.geo_scale) if self.kind == "latlon"
            else self.x)
        got = curve_of(exp.spec_for(post), xf, self.kind == "dir", self.dim)
        ref = self.y.reshape(-1)
        if not np.all(np.abs(got - ref) <= 1e-3 * sill):
            raise Violation("C10.recovery.curve", maxdiff=maxdiff(got, ref), cls=t["cls"])
        # parameters: identifiable selections only (bins reach below and beyond the range)
        if t["cls"] in SMOOTH and len(self.x) >= 10:
            for name in ["var", "len_scale", "nugget"]:
                if exp.fitted[name] or (exp.constrain and name == "nugget"):
                    if abs(post[name] - t[name]) > 2e-2 * max(abs(t[name]), 0.05 * sill):
                        raise Violation("C10.recovery.param", name=name, want=t[name],
                                        got=post[name], cls=t["cls"])
            self.ctx.probe("recovery.params_checked")

    def state_key(self):
        r = read(self.model)
        return [self.cfg["true"]["cls"], self.kind, self.n_fit, round(r["var"], 6),
                round(r["len_scale"], 6)]

    def close(self):
        gsfit.curve_fit = self._orig
        scipy.optimize.curve_fit = _SCIPY_CURVE_FIT


def signature(rec):
    v = rec["violation"]
    d = v["detail"]
    if v["invariant"] == "C10.fit_raised":
        err = d.get("error", "")
        on_open_bound = ("needs to be > " in err and err.rstrip().endswith(("got: 0.0", "[0.]")))\
            or "anisotropy-ratios needs to be > 0" in err
        if d.get("method") == "dogbox" and d.get("party") == "real" and on_open_bound:
            return "C10.fit_raised:dogbox:evaluated_on_open_bound"
        return "C10.fit_raised:%s:%s" % (d.get("method"), err[:40])
    return "%s:%s:%s" % (v["invariant"], d.get("kind", d.get("key", "")),
                         "TPL" if rec["config"]["true"]["cls"] in TPL else "any")


def history_sig(op):
    kw = op["kwargs"]
    sel = kw.get("select", {})
    pat = "".join("F" if sel.get(p, True) is True else ("x" if sel[p] is False else "v")
                  for p in ["var", "len_scale", "nugget"])
    sill = kw.get("sill")
    sm = "N" if sill is None else ("F" if sill is False else "V")
    return "%s:%s:%s:%s" % (op["party"], pat, sm,
                            "".join(a["a"][0] for a in op.get("schedule", [])))


def simplify(config, ops):
    for i, op in enumerate(ops):
        sch = op.get("schedule")
        if sch:
            for j in range(len(sch)):
                o2 = copy.deepcopy(ops)
                del o2[i]["schedule"][j]
                yield config, o2
        kw = op["kwargs"]
        for key, val in (("weights", None), ("bounds", False), ("loss", "linear"),
                         ("method", "trf"), ("init_guess", "current")):
            if kw.get(key) != val:
                o2 = copy.deepcopy(ops)
                o2[i]["kwargs"][key] = val
                yield config, o2
        for p in list(kw.get("select", {})):
            o2 = copy.deepcopy(ops)
            del o2[i]["kwargs"]["select"][p]
            yield config, o2
