"""C14 - model parameters form a consistent state independent of how it was reached.

History machine over one CovModel instance under seeded sequences of public mutations.
Oracles after every step: (i) an independent reference parameter model transcribing the
*documented* setter semantics, (ii) equality with a model constructed directly from the
read-back values, (iii) consistency of derived quantities, (iv) out-of-bounds => ValueError.
"""
import copy

import numpy as np

import gstools as gs

from sim.core import Violation, Inapplicable, HarnessError, close, maxdiff, jdump
from . import common as cm

NAME = "covmodel"
PROPERTY = "C14"
TIERS = {"quick": (3500, 90.0), "thorough": (300000, 1800.0)}
CHANGE_KINDS = {"set", "bounds", "boundary", "alias_probe"}
OBSERVE_KINDS = {"set", "bounds", "boundary", "alias_probe"}
RULE = ("one run = seeded history (3-12 ops) of public mutations on one CovModel (17 classes x "
        "plain / temporal / lat-lon / lat-lon+temporal x dim 1-4): assignments of var, var_raw, "
        "len_scale (scalar / list), anis, angles, nugget, optional args, rescale, dim, "
        "integral_scale, hankel_kw; set_arg_bounds with and without check_args; boundary "
        "values (closed bound accepted, open bound rejected); out-of-bounds values (must raise, "
        "then repaired). Every op is followed by all invariants. distinct = abstract history "
        "signature (op kind + parameter); non-trivial = at least two executed mutations")
COMPONENTS = {
    "real": ["gstools.covmodel.base/tools/models/tpl_models (working tree)",
             "gstools.tools.geometric", "hankel", "scipy.special", "numpy"],
    "stub": ["reference parameter model (dict, documented semantics only)"],
}
ASSUMPTIONS = [
    "'rejected' is read as 'raises ValueError'; the code writes before it checks, so the "
    "parameter is poisoned until re-assigned (the op repairs it immediately)",
    "lists longer than the dimension are not generated (docs are silent about truncation)",
    "how `dim = d` re-pads ratios/angles is not asserted by the reference model (docs silent); "
    "it is covered by direct-construction equality",
    "a failing integral_scale assignment ('could not be set correctly') is treated as a "
    "rejected assignment of len_scale/anis, nothing is flagged",
    "values from a grid with >= 5 % steps",
]

TPL = ("TPLGaussian", "TPLExponential", "TPLStable")
DIMDEP = ("SuperSpherical", "JBessel", "TPLSimple")


def is_nontrivial(ops):
    return sum(1 for o in ops if not o.get("_skipped")) >= 2


# ------------------------------------------------------------------ reference model


def default_opt_bounds(cls, dim):
    if cls == "Stable":
        return {"alpha": [0, 2, "oc"]}
    if cls == "Matern":
        return {"nu": [0.2, 30.0, "cc"]}
    if cls == "Integral":
        return {"nu": [0.0, 50.0, "oc"]}
    if cls == "Rational":
        return {"alpha": [0.5, 50.0, "cc"]}
    if cls == "SuperSpherical":
        return {"nu": [(dim - 1) / 2, 50.0, "cc"]}
    if cls == "JBessel":
        return {"nu": [dim / 2 - 1, 50.0, "cc"]}
    if cls in ("TPLGaussian", "TPLExponential"):
        return {"hurst": [0.1, 1, "oo"], "len_low": [0.0, np.inf, "co"]}
    if cls == "TPLStable":
        return {"hurst": [0.1, 1, "oo"], "alpha": [0, 2, "oc"], "len_low": [0.0, np.inf, "co"]}
    if cls == "TPLSimple":
        return {"nu": [(dim + 1) / 2, 50.0, "cc"]}
    return {}


STD_BOUNDS = {"var": [0.0, np.inf, "oo"], "len_scale": [0.0, np.inf, "oo"],
              "nugget": [0.0, np.inf, "co"], "anis": [0.0, np.inf, "oo"]}


def in_bounds(val, b):
    lo, hi = b[0], b[1]
    typ = b[2] if len(b) > 2 else "cc"
    v = np.atleast_1d(np.asarray(val, dtype=np.double))
    ok_lo = np.all(v >= lo) if typ[0] == "c" else np.all(v > lo)
    ok_hi = np.all(v <= hi) if typ[1] == "c" else np.all(v < hi)
    return bool(ok_lo and ok_hi)


def default_from_bounds(b):
    if b[0] > -np.inf and b[1] < np.inf:
        return (b[0] + b[1]) / 2.0
    if b[0] > -np.inf:
        return b[0] + 1.0
    if b[1] < np.inf:
        return b[1] - 1.0
    return 0.0


class Ref:
    """Documented semantics of the parameter state."""

    def __init__(self, spec):
        self.cls = spec["cls"]
        self.latlon = bool(spec.get("latlon"))
        self.temporal = bool(spec.get("temporal"))
        self.dim = (3 + int(self.temporal)) if self.latlon else spec["dim"]
        self.rescale = (np.sqrt(np.pi) / 2 if self.cls == "Gaussian" else 1.0) \
            if spec.get("rescale") is None else abs(float(spec["rescale"]))
        self.len_scale = float(spec["len_scale"])
        self.anis = [float(a) for a in spec["anis"]]
        self.angles = [float(a) for a in spec["angles"]]
        self.nugget = float(spec["nugget"])
        self.opt = dict(spec["opt"])
        self.user_bounds = {}
        self._fix_geo()
        self.var_raw = float(spec["var"]) / self.factor()

    def n_angles(self):
        return self.dim * (self.dim - 1) // 2

    def _fix_geo(self):
        if self.latlon:
            for i in range(min(2, len(self.anis))):
                self.anis[i] = 1.0
            self.angles = [0.0] * self.n_angles()
        elif self.temporal:
            keep = (self.dim - 1) * (self.dim - 2) // 2
            self.angles = [a if i < keep else 0.0 for i, a in enumerate(self.angles)]

    def factor(self):
        if self.cls in TPL:
            h = self.opt["hurst"]
            up = (self.opt["len_low"] + self.len_scale) / self.rescale
            low = self.opt["len_low"] / self.rescale
            return (up ** (2 * h) - low ** (2 * h)) / (2 * h)
        return 1.0

    @property
    def var(self):
        return self.var_raw * self.factor()

    def bounds(self, p):
        if p in self.user_bounds:
            return self.user_bounds[p]
        if p in STD_BOUNDS:
            return STD_BOUNDS[p]
        return None  # dimension dependent defaults are not asserted by the reference

    def set_len_scale(self, v):
        if isinstance(v, list) and len(v) > 1:
            ls = [float(x) for x in v][: self.dim]
            ls = ls + [ls[-1]] * (self.dim - len(ls))
            self.len_scale = ls[0]
            self.anis = [ls[i] / ls[0] for i in range(1, self.dim)]
        else:
            self.len_scale = float(v[0] if isinstance(v, list) else v)
        self._fix_geo()

    def set_anis(self, v):
        v = [float(x) for x in (v if isinstance(v, list) else [v])][: max(self.dim - 1, 0)]
        self.anis = [1.0] * (self.dim - 1 - len(v)) + v
        self._fix_geo()

    def set_angles(self, v):
        v = [float(x) for x in (v if isinstance(v, list) else [v])][: self.n_angles()]
        self.angles = v + [0.0] * (self.n_angles() - len(v))
        self._fix_geo()


# ------------------------------------------------------------------ config / build


def gen_config(rng):
    cls = rng.choice(cm.MODELS)
    flavor = rng.choice(["plain", "plain", "plain", "temporal", "latlon", "latlon_temporal"])
    sdim = rng.choice([1, 2, 2, 3, 3])
    if flavor == "plain" and rng.random() < 0.15:
        sdim = 4
    latlon = flavor.startswith("latlon")
    temporal = flavor.endswith("temporal")
    dim = (3 + int(temporal)) if latlon else sdim + int(temporal)
    dim = min(dim, 4)
    spec = {
        "cls": cls, "dim": dim, "latlon": latlon, "temporal": temporal,
        "var": rng.choice(cm.VAR_GRID), "len_scale": rng.choice(cm.LEN_GRID),
        "anis": [rng.choice(cm.ANIS_GRID) for _ in range(dim - 1)],
        "angles": [rng.choice(cm.ANGLE_GRID) for _ in range(cm.n_angles(dim))],
        "nugget": rng.choice(cm.NUGGET_GRID),
        "opt": {k: rng.choice(v) for k, v in sorted(cm.opt_grid(cls, dim).items())},
        "rescale": rng.choice([None, None, None, 0.5, 2.0]),
        "geo_scale": rng.choice([1.0, 6371.0]) if latlon else 1.0,
    }
    w = {"set": 10, "bounds": 2, "boundary": 2, "fault": 3, "alias_probe": 1}
    faults = rng.random() >= 0.4
    if not faults:
        w["fault"] = 0
    for k in ("bounds", "boundary"):
        if rng.random() < 0.2:
            w[k] = 0
    pw = {"var": 3, "var_raw": 1, "len_scale": 3, "len_scale_list": 2, "anis": 3, "angles": 2,
          "nugget": 2, "opt": 3, "rescale": 1, "dim": 2, "integral_scale": 1, "hankel_kw": 1}
    for k in sorted(pw):
        r = rng.random()
        if r < 0.15:
            pw[k] = 0
        elif r > 0.85:
            pw[k] *= 3
    init_is = None
    if rng.random() < 0.2 and not (cls in TPL and spec["opt"].get("len_low", 0) > 0):
        # construct through `integral_scale=` (then `len_scale` is derived numerically)
        init_is = rng.choice(cm.LEN_GRID)
    return {"n_ops": rng.randint(3, 12), "model": spec, "weights": w, "param_weights": pw,
            "faults": faults, "init_integral_scale": init_is}


def build_from(spec, integral_scale=None):
    cls = getattr(gs, spec["cls"])
    if integral_scale is not None:
        spec = dict(spec, len_scale=1.0)
    kw = dict(dim=spec["dim"], var=spec["var"], len_scale=spec["len_scale"],
              nugget=spec["nugget"], anis=list(spec["anis"]) if spec["anis"] else 1.0,
              angles=list(spec["angles"]) if spec["angles"] else 0.0,
              latlon=spec.get("latlon", False), temporal=spec.get("temporal", False),
              geo_scale=spec.get("geo_scale", 1.0), rescale=spec.get("rescale"))
    kw.update(spec["opt"])
    if integral_scale is not None:
        kw["integral_scale"] = integral_scale
    if spec.get("hankel_kw") is not None:
        kw["hankel_kw"] = dict(spec["hankel_kw"])  # numerical setting of the Hankel transform
    return cls(**kw)


def readback(m, spec0):
    return {"cls": m.name, "dim": m.dim, "latlon": m.latlon, "temporal": m.temporal,
            "var": float(m.var), "len_scale": float(m.len_scale),
            "anis": [float(a) for a in m.anis], "angles": [float(a) for a in m.angles],
            "nugget": float(m.nugget), "opt": {o: float(getattr(m, o)) for o in m.opt_arg},
            "rescale": float(m.rescale), "geo_scale": float(m.geo_scale),
            "hankel_kw": dict(m.hankel_kw)}


LAGS = np.array([0.0, 0.05, 0.3, 0.9, 1.7, 4.0, 11.0])


class Machine:
    def __init__(self, config, ctx):
        self.cfg = config
        self.ctx = ctx
        self.spec0 = cm.spec_copy(config["model"])
        self.m = None
        self.obs = 0
        isc = config.get("init_integral_scale")
        if isc is not None:
            try:
                self.m = build_from(self.spec0, integral_scale=isc)
            except ValueError:
                self.m = None  # integral scale not settable for this model: plain construction
                ctx.probe("integral_scale_refused")
            if self.m is not None:
                got = float(self.m.integral_scale)
                if not np.isclose(got, isc, rtol=2e-3):
                    raise Violation("C14.integral_scale_post", want=isc, got=got, after="init")
                self.spec0["len_scale"] = float(self.m.len_scale)  # numerically derived: adopt
                ctx.probe("constructed_with_integral_scale")
        if self.m is None:
            self.m = build_from(self.spec0)
        self.ref = Ref(self.spec0)
        self.poison = set()
        self.check_all("init")

    # ------------------------------------------------------------------ op generation
    def gen_op(self, rng):
        w = self.cfg["weights"]
        kinds = sorted(k for k in w if w[k] > 0)
        kind = rng.choices(kinds, [w[k] for k in kinds])[0]
        r = self.ref
        if kind == "set":
            pw = dict(self.cfg["param_weights"])
            if r.dim == 1:
                pw["anis"] = pw["angles"] = pw["len_scale_list"] = 0
            if not r.opt:
                pw["opt"] = 0
            if r.latlon:
                pw["dim"] = 0
            names = sorted(k for k in pw if pw[k] > 0) or ["var"]
            p = rng.choices(names, [pw.get(k, 1) or 1 for k in names])[0]
            return self._gen_set(rng, p)
        if kind == "bounds":
            cands = ["var", "len_scale", "nugget", "anis"] + sorted(r.opt)
            p = rng.choice(cands)
            cur = {"var": r.var, "len_scale": r.len_scale, "nugget": r.nugget,
                   "anis": None}.get(p, r.opt.get(p))
            check = rng.random() < 0.5
            base = r.bounds(p) or default_opt_bounds(r.cls, r.dim).get(p)
            lo0, hi0 = base[0], base[1]
            if p == "anis":
                vals = r.anis or [1.0]
                curlo, curhi = min(vals), max(vals)
            else:
                curlo = curhi = cur
            if check and rng.random() < 0.6:
                # exclude the current value -> must be moved to the default inside the bounds
                lo = max(lo0, curhi * rng.choice([1.5, 3.0]) + 0.1)
                hi = lo * 4 + 1.0
            else:
                lo = max(lo0, curlo * rng.choice([0.25, 0.5]) if curlo > 0 else lo0)
                hi = curhi * rng.choice([2.0, 8.0]) + 1.0
            hi = min(hi, hi0)
            if not hi - lo >= 0.05 * max(1.0, abs(lo)):
                lo, hi = lo0, hi0
            if rng.random() < 0.35:
                # several parameters in ONE call, in a seeded keyword order, each excluding the
                # current value (documented: the variance is reset last)
                many = rng.sample(cands, min(len(cands), rng.randint(2, 3)))
                multi = []
                for q in many:
                    cq = {"var": r.var, "len_scale": r.len_scale, "nugget": r.nugget}.get(
                        q, r.opt.get(q))
                    if q == "anis":
                        cq = max(r.anis or [1.0])
                    bq = r.bounds(q) or default_opt_bounds(r.cls, r.dim).get(q)
                    lo_q = max(bq[0], cq * rng.choice([1.5, 3.0]) + 0.1) if rng.random() < 0.7 \
                        else max(bq[0], cq * 0.5)
                    hi_q = min(bq[1], lo_q * 4 + 1.0)
                    if not hi_q - lo_q >= 0.05 * max(1.0, abs(lo_q)):
                        lo_q, hi_q = bq[0], bq[1]
                    bt = bq[2] if len(bq) > 2 else "cc"
                    multi.append([q, [float(lo_q), float(hi_q), bt]])
                return {"op": "bounds", "check": True, "param": "multi", "multi": multi}
            typ = rng.choice(["oo", "cc", "oc", "co", None])
            # narrowing only: an endpoint shared with the default keeps the default's type
            btyp = base[2] if len(base) > 2 else "cc"
            t = list(typ or "cc")
            if lo == lo0:
                t[0] = btyp[0]
            if hi == hi0:
                t[1] = btyp[1]
            if typ is None and "".join(t) != "cc":
                typ = "".join(t)
            elif typ is not None:
                typ = "".join(t)
            b = [float(lo), float(hi)] + ([typ] if typ else [])
            return {"op": "bounds", "check": check, "param": p, "bounds": b,
                    "via": rng.choice(["set_arg_bounds", "set_arg_bounds", "property"])}
        if kind == "alias_probe":
            return {"op": "alias_probe", "what": rng.choice(["anis", "angles", "len_scale"]),
                    "how": rng.choice(["give_then_mutate", "take_then_build"]),
                    "flavor": rng.choice(["temporal", "latlon_temporal", "plain"]),
                    "values": [rng.choice(cm.ANIS_GRID) for _ in range(6)]}
        if kind == "boundary":
            cands = ["var", "len_scale", "nugget"] + sorted(r.opt)
            return {"op": "boundary", "param": rng.choice(cands),
                    "side": rng.choice(["lo", "hi"])}
        if rng.random() < 0.12:
            return {"fault": "errstate", "value": rng.choice(["warn", "ignore"])}
        if rng.random() < 0.12 and not r.latlon:
            lo = 2 if r.temporal else 1
            return {"fault": "warnings_as_errors", "param": "dim",
                    "value": rng.choice([d for d in range(lo, 5) if d != r.dim])}
        # rejected_set
        cands = ["var", "var_raw", "len_scale", "nugget", "len_scale_list", "integral_scale"]
        if r.dim > 1:
            cands += ["anis", "anis"]
        cands += ["opt:" + o for o in sorted(r.opt)]
        if not r.latlon:
            cands.append("dim")
        p = rng.choice(cands)
        ub = sorted(q for q in r.user_bounds if q in ("var", "len_scale", "nugget", "anis")
                    and (q != "anis" or r.dim > 1))
        if ub and rng.random() < 0.4:
            p = rng.choice(ub)   # bounds the user has set are tried more often
        return {"fault": "rejected_set", "param": p, "bad": self._bad_value(rng, p)}

    def _bad_value(self, rng, p):
        r = self.ref
        ub = r.user_bounds.get(p if p != "len_scale_list" else "len_scale")
        if ub is not None and p in ("var", "len_scale", "nugget", "anis") and rng.random() < 0.7:
            # a perfectly ordinary positive value that only the USER's bounds exclude
            out = []
            if np.isfinite(ub[1]):
                out.append(float(ub[1]) * rng.choice([1.5, 2.0]) + 0.25)
            if ub[0] > 0:
                out.append(float(ub[0]) * rng.choice([0.25, 0.5]))
            if out:
                bad = rng.choice(out)
                if p == "anis":
                    if r.dim == 1:
                        return None
                    v = [self._pick(rng, cm.ANIS_GRID, ub) for _ in range(r.dim - 1)]
                    free = [i for i in range(len(v)) if not (r.latlon and i < 2)]
                    if not free:
                        return None
                    v[rng.choice(free)] = bad
                    return v if rng.random() < 0.7 or r.dim > 2 else bad
                return bad
        if p in ("var", "var_raw", "len_scale", "integral_scale"):
            return rng.choice([-1.0, 0.0, -0.3])
        if p == "nugget":
            return rng.choice([-0.5, -1e-3])
        if p == "len_scale_list":
            v = [rng.choice(cm.LEN_GRID) for _ in range(max(2, r.dim))][: max(2, r.dim)]
            v[rng.randrange(len(v))] = rng.choice([-1.0, 0.0])
            return v
        if p == "anis":
            v = [rng.choice(cm.ANIS_GRID) for _ in range(r.dim - 1)]
            free = list(range(len(v)))
            if r.latlon:
                free = [i for i in free if i >= 2]
            if not free:
                return [-1.0] * len(v) if not r.latlon else None
            v[rng.choice(free)] = rng.choice([-1.0, 0.0])
            return v
        if p == "dim":
            return rng.choice([0, -1])
        name = p[4:]
        b = r.bounds(name) or default_opt_bounds(r.cls, r.dim)[name]
        lo, hi = b[0], b[1]
        if rng.random() < 0.5 and lo > -np.inf:
            return float(lo - rng.choice([0.5, 0.01]))
        if hi < np.inf:
            return float(hi + rng.choice([0.5, 0.01]))
        return float(lo - 0.5)

    def _gen_set(self, rng, p):
        r = self.ref
        if p == "var" or p == "var_raw":
            return {"op": "set", "param": p, "value": self._pick(rng, cm.VAR_GRID, r.bounds("var"))}
        if p == "len_scale":
            v = self._pick(rng, cm.LEN_GRID, r.bounds("len_scale"))
            if rng.random() < 0.15:
                v = [v]
            return {"op": "set", "param": p, "value": v}
        if p == "len_scale_list":
            n = rng.randint(2, r.dim)
            return {"op": "set", "param": "len_scale",
                    "value": [self._pick(rng, cm.LEN_GRID, r.bounds("len_scale"))
                              for _ in range(n)]}
        if p == "anis":
            n = rng.randint(1, r.dim - 1)
            v = [self._pick(rng, cm.ANIS_GRID, r.bounds("anis")) for _ in range(n)]
            return {"op": "set", "param": p, "value": v[0] if rng.random() < 0.25 else v}
        if p == "angles":
            n = rng.randint(1, max(1, r.n_angles()))
            v = [rng.choice(cm.ANGLE_GRID + [-0.7]) for _ in range(n)]
            return {"op": "set", "param": p, "value": v[0] if rng.random() < 0.25 else v}
        if p == "nugget":
            return {"op": "set", "param": p,
                    "value": self._pick(rng, cm.NUGGET_GRID + [0.25], r.bounds("nugget"))}
        if p == "opt":
            name = rng.choice(sorted(r.opt))
            grid = cm.opt_grid(r.cls, r.dim)[name]
            return {"op": "set", "param": "opt:" + name,
                    "value": self._pick(rng, grid, r.bounds(name))}
        if p == "rescale":
            return {"op": "set", "param": p, "value": rng.choice([0.5, 1.0, 2.0, 3.0, None])}
        if p == "dim":
            lo = 2 if r.temporal else 1
            return {"op": "set", "param": p, "value": rng.choice(
                [d for d in range(lo, 5) if d != r.dim])}
        if p == "integral_scale":
            v = rng.choice(cm.LEN_GRID)
            if r.dim > 1 and rng.random() < 0.4:
                v = [v] + [rng.choice(cm.LEN_GRID) for _ in range(rng.randint(1, r.dim - 1))]
            return {"op": "set", "param": p, "value": v}
        return {"op": "set", "param": "hankel_kw",
                "value": rng.choice([None, {"N": 500}, {"h": 0.002, "N": 800}])}

    def _pick(self, rng, grid, b):
        ok = [g for g in grid if b is None or in_bounds(g, b)]
        if ok:
            return rng.choice(ok)
        return float(default_from_bounds(b))

    # ------------------------------------------------------------------ execution
    def apply(self, op):
        if op.get("fault") == "errstate":
            np.seterr(all=op["value"])
            self.ctx.fired("errstate")
        elif op.get("fault") == "warnings_as_errors":
            self._warn_as_error(op)
            return
        elif "fault" in op:
            self._rejected(op)
        elif op["op"] == "set":
            self._set(op)
        elif op["op"] == "bounds":
            self._bounds(op)
        elif op["op"] == "boundary":
            self._boundary(op)
        elif op["op"] == "alias_probe":
            self._alias_probe(op)
        else:
            raise HarnessError(str(op))
        self.check_all(op.get("param", "?"))

    def _warn_as_error(self, op):
        """Ambient fault: the process runs with warnings turned into errors.  An assignment
        that only *warns* (dimension not appropriate for the model) then fails; whatever state
        the failed call leaves must be internally consistent (derived quantities), and after the
        user re-assigns the old dimension the model equals the reference again."""
        import warnings
        r, m = self.ref, self.m
        if self.poison or r.latlon:
            raise Inapplicable("poisoned / latlon")
        d = op["value"]
        if not self._valid_for_ref("dim", d):
            raise Inapplicable("dim")
        for name, b in default_opt_bounds(r.cls, d).items():
            if name not in r.user_bounds and not in_bounds(r.opt[name], b):
                raise Inapplicable("opt arg illegal in that dimension")
        if r.cls in DIMDEP and any(o in r.user_bounds for o in r.opt):
            raise Inapplicable("user bounds on a dimension dependent argument")
        if "anis" in r.user_bounds and d > r.dim and not in_bounds(1.0, r.user_bounds["anis"]):
            raise Inapplicable("padding with 1 excluded")
        raised = False
        with warnings.catch_warnings():
            warnings.simplefilter("error")
            try:
                m.dim = d
            except Warning:
                raised = True
        self.ctx.fired("warnings_as_errors")
        if raised:
            self.ctx.probe("warning_raised_as_error")
            # consistency of whatever is there now (no reference comparison: the call failed)
            if len(m.anis) != m.dim - 1 or len(m.angles) != m.dim * (m.dim - 1) // 2 or \
                    len(m.len_scale_vec) != m.dim:
                raise Violation("C14.inconsistent_after_failed_assignment", dim=m.dim,
                                n_anis=len(m.anis), n_angles=len(m.angles))
            self._repair_dim()
            self.check_all("warn_as_error.repaired")
        else:
            self._ref_dim(d)
            self.check_all("dim")

    def _alias_probe(self, op):
        """The model must own its parameter state: arrays handed to it, or taken from it and
        handed to another model, must not be shared."""
        r, m = self.ref, self.m
        if self.poison:
            raise Inapplicable("poisoned")
        what, how = op["what"], op["how"]
        if what in ("anis", "angles") and r.dim == 1:
            raise Inapplicable("1d")
        if how == "give_then_mutate":
            if what == "anis":
                vals = [float(v) for v in op["values"][: r.dim - 1]]
                if r.latlon:
                    vals[:2] = [1.0, 1.0][: len(vals)]
                if not in_bounds(vals, r.bounds("anis")):
                    raise Inapplicable("bounds")
                arr = np.array(vals, dtype=np.double)
                m.anis = arr
                r.set_anis(list(vals))
            elif what == "angles":
                vals = [float(v) for v in (op["values"] * 2)[: r.n_angles()]]
                arr = np.array(vals, dtype=np.double)
                m.angles = arr
                r.set_angles(list(vals))
            else:
                if r.dim == 1:
                    raise Inapplicable("1d")
                vals = [float(v) * 2 for v in op["values"][: r.dim]]
                trial = copy.deepcopy(r)
                trial.set_len_scale(list(vals))
                if not self._ref_in_bounds(trial):
                    raise Inapplicable("bounds")
                arr = np.array(vals, dtype=np.double)
                m.len_scale = arr
                self.ref = trial
            self.check_all("alias_probe.assign")
            arr *= 3.0          # the caller reuses its array
            arr[...] = arr + 1.0
            self.ctx.probe("alias.give_then_mutate")
            return
        # take_then_build: hand the model's own arrays to another model of another flavour
        cls = type(m)
        fl = op["flavor"]
        kw = {"dim": m.dim}
        if fl == "temporal":
            kw["temporal"] = True
        elif fl == "latlon_temporal":
            if m.dim != 4:
                raise Inapplicable("needs dim 4")
            kw.update(latlon=True, temporal=True)
        kw.update({o: getattr(m, o) for o in m.opt_arg})
        if what == "anis":
            kw["anis"] = m.anis
        elif what == "angles":
            kw["angles"] = m.angles
        else:
            kw["len_scale"] = m.len_scale_vec
        try:
            other = cls(**kw)
            if what == "anis":
                other.anis = m.anis
            elif what == "angles":
                other.angles = m.angles
        except ValueError:
            raise Inapplicable("helper model not constructible")
        self.ctx.probe("alias.take_then_build")

    def _assign(self, p, v):
        m = self.m
        if p.startswith("opt:"):
            if p[4:] not in m.opt_arg:
                raise Inapplicable("no opt arg")
            setattr(m, p[4:], v)
        elif p == "len_scale_list":
            m.len_scale = v
        else:
            setattr(m, p, copy.deepcopy(v))

    def _valid_for_ref(self, p, v):
        """Is the value legal under the documented bounds (tracked by the reference)?"""
        r = self.ref
        if p in ("var", "var_raw"):
            val = v if p == "var" else v * r.factor()
            return in_bounds(val, r.bounds("var")) and v > 0
        if p == "len_scale":
            vs = v if isinstance(v, list) else [v]
            if len(vs) > r.dim or any(x <= 0 for x in vs):
                return False
            if not in_bounds(vs[0], r.bounds("len_scale")):
                return False
            if len(vs) > 1:
                ls = vs + [vs[-1]] * (r.dim - len(vs))
                an = [ls[i] / ls[0] for i in range(1, r.dim)]
                if r.latlon:
                    an[:2] = [1.0, 1.0][: len(an)]
                return in_bounds(an, r.bounds("anis"))
            return True
        if p == "anis":
            vs = v if isinstance(v, list) else [v]
            if len(vs) > r.dim - 1 or r.dim == 1:
                return False
            full = [1.0] * (r.dim - 1 - len(vs)) + vs
            if any(x <= 0 for x in full):
                return False
            if r.latlon:
                full[:2] = [1.0, 1.0][: len(full)]
            return in_bounds(full, r.bounds("anis"))
        if p == "angles":
            vs = v if isinstance(v, list) else [v]
            return len(vs) <= max(r.n_angles(), 1)
        if p == "nugget":
            return in_bounds(v, r.bounds("nugget"))
        if p.startswith("opt:"):
            if p[4:] not in r.opt:
                return False
            b = r.bounds(p[4:]) or default_opt_bounds(r.cls, r.dim)[p[4:]]
            return in_bounds(v, b)
        if p == "rescale":
            return v is None or v > 0
        if p == "dim":
            return (not r.latlon) and 1 + int(r.temporal) <= v <= 4
        if p == "integral_scale":
            vs = v if isinstance(v, list) else [v]
            return all(x > 0 for x in vs) and len(vs) <= r.dim
        return True

    def _set(self, op):
        p, v = op["param"], op["value"]
        r = self.ref
        if self.poison:
            raise Inapplicable("model poisoned")
        if not self._valid_for_ref(p, v):
            raise Inapplicable("value not legal in the current state")
        if p == "dim":
            if r.cls in DIMDEP and any(o in r.user_bounds for o in r.opt):
                raise Inapplicable("user bounds on a dimension dependent argument: which "
                                   "bounds hold in the new dimension is not documented")
            if "anis" in r.user_bounds and v > r.dim and not in_bounds(1.0, r.user_bounds["anis"]):
                raise Inapplicable("new ratios are padded with 1, which the user bounds exclude")
            # dimension dependent default bounds: if the current value is illegal in the new
            # dimension (a directly constructed model would raise) the change must be rejected
            for name, b in default_opt_bounds(r.cls, v).items():
                if name not in r.user_bounds and not in_bounds(r.opt[name], b):
                    try:
                        self.m.dim = v
                    except ValueError:
                        self.ctx.fired("rejected_set")
                        self.ctx.probe("dim_change_rejected")
                        self._repair_dim()
                        return
                    raise Violation("C14.out_of_bounds_accepted", param="dim", value=v,
                                    opt=name, opt_value=r.opt[name], bounds_in_new_dim=b)
        if p not in ("dim", "integral_scale", "hankel_kw"):
            trial = copy.deepcopy(r)
            self._ref_apply(trial, p, v)
            if not self._ref_in_bounds(trial):
                raise Inapplicable("a derived value would leave its bounds")
        try:
            self._assign(p, v)
        except ValueError as e:
            if p == "integral_scale":  # not settable for this model state (e.g. infinite)
                self.ctx.probe("integral_scale_refused")
                # like a rejected assignment: len_scale / anis are whatever the code left;
                # the user re-assigns them
                self._repair_len()
                return
            raise Violation("C14.valid_value_rejected", param=p, value=v, error=str(e)[:120])
        self.ctx.probe("set." + p.split(":")[0])
        # ---- reference semantics
        if p not in ("dim", "integral_scale", "hankel_kw"):
            self._ref_apply(r, p, v)
        elif p == "dim":
            self._ref_dim(v)
        elif p == "integral_scale":
            vs = v if isinstance(v, list) else [v]
            if len(vs) > 1:
                r.set_len_scale(vs)
            got = self.m.integral_scale
            if not np.isclose(got, vs[0], rtol=2e-3):
                raise Violation("C14.integral_scale_post", want=vs[0], got=float(got))
            r.len_scale = float(self.m.len_scale)  # numerically derived: adopt
        elif p == "hankel_kw":
            pass

    @staticmethod
    def _ref_apply(r, p, v):
        if p == "var":
            r.var_raw = float(v) / r.factor()
        elif p == "var_raw":
            r.var_raw = float(v)
        elif p == "len_scale":
            r.set_len_scale(v)
        elif p == "anis":
            r.set_anis(v)
        elif p == "angles":
            r.set_angles(v)
        elif p == "nugget":
            r.nugget = float(v)
        elif p.startswith("opt:"):
            r.opt[p[4:]] = float(v)
        elif p == "rescale":
            r.rescale = (np.sqrt(np.pi) / 2 if r.cls == "Gaussian" else 1.0) if v is None \
                else abs(float(v))
        else:
            raise HarnessError(p)

    @staticmethod
    def _ref_in_bounds(r):
        if not (np.isfinite(r.var) and in_bounds(r.var, r.bounds("var"))):
            return False
        if not in_bounds(r.len_scale, r.bounds("len_scale")):
            return False
        if not in_bounds(r.nugget, r.bounds("nugget")):
            return False
        if r.anis and not in_bounds(r.anis, r.bounds("anis")):
            return False
        for name, val in r.opt.items():
            b = r.bounds(name) or default_opt_bounds(r.cls, r.dim)[name]
            if not in_bounds(val, b):
                return False
        return True

    def _ref_dim(self, d):
        """dim change: parameters other than the number of ratios/angles stay; how ratios and
        angles are re-padded is not documented -> adopt the SUT's, but require that existing
        trailing ratios survive or are truncated, never invented."""
        r = self.ref
        m = self.m
        r.dim = int(d)
        new_anis = [float(a) for a in m.anis]
        new_angles = [float(a) for a in m.angles]
        r.anis, r.angles = new_anis, new_angles
        r._fix_geo()

    def _repair_dim(self):
        """A rejected dim change was written before it was checked (ratios and angles were
        re-padded / truncated on the way): re-assign dim, scales and angles."""
        r = self.ref
        self.m.dim = r.dim
        self._repair_len()
        if r.dim > 1:
            self.m.angles = list(r.angles)

    def _repair_len(self):
        """One valid assignment that defines main scale and ratios (the list form)."""
        r = self.ref
        if r.dim > 1:
            self.m.len_scale = [r.len_scale] + [r.len_scale * a for a in r.anis]
            if r.latlon and r.temporal:
                self.m.anis = list(r.anis)
        else:
            self.m.len_scale = r.len_scale

    def _bounds_multi(self, op):
        r = self.ref
        if self.poison:
            raise Inapplicable("poisoned")
        items = [(q, list(b)) for q, b in op["multi"]]
        names = [q for q, _ in items]
        if len(set(names)) != len(names):
            raise Inapplicable("duplicate parameter")
        for q, b in items:
            if q not in ("var", "len_scale", "nugget", "anis") and q not in r.opt:
                raise Inapplicable("no such parameter")
            if not b[0] < b[1]:
                raise Inapplicable("bounds")
            if q == "anis" and (r.latlon and not in_bounds(1.0, b) or r.dim == 1):
                raise Inapplicable("anis bounds not applicable")
        trial = copy.deepcopy(r)
        # documented semantics: every parameter is checked against its new bounds and moved to
        # the default inside them if necessary; the variance is handled last
        order = [it for it in items if it[0] != "var"] + [it for it in items if it[0] == "var"]
        for q, b in order:
            trial.user_bounds[q] = b
            cur = {"var": trial.var, "len_scale": trial.len_scale, "nugget": trial.nugget,
                   "anis": trial.anis}.get(q, trial.opt.get(q))
            if not in_bounds(cur, b):
                d = default_from_bounds(b)
                if q == "var":
                    trial.var_raw = d / trial.factor()
                elif q == "len_scale":
                    trial.len_scale = d
                elif q == "nugget":
                    trial.nugget = d
                elif q == "anis":
                    trial.anis = [d] * (trial.dim - 1)
                    trial._fix_geo()
                else:
                    trial.opt[q] = d
                self.ctx.probe("bounds.value_moved")
        if not self._ref_in_bounds(trial):
            raise Inapplicable("a derived value would leave its bounds")
        # intermediate states must be legal too (each setter checks all bounds): only the
        # documented 'var last' order is promised, so require that the other parameters do not
        # push a TPL variance out of its *old* bounds on the way
        try:
            self.m.set_arg_bounds(check_args=True, **{q: b for q, b in items})
        except ValueError as e:
            if r.cls in TPL:
                self._resync_after_failed_bounds()
                raise Inapplicable("TPL variance left its bounds on the way: %s" % str(e)[:60])
            raise Violation("C14.set_arg_bounds_raised", param="multi", bounds=items,
                            error=str(e)[:120])
        self.ctx.probe("bounds.multi")
        self.ref = trial

    def _resync_after_failed_bounds(self):
        """A failed multi-bound call leaves a half-updated model: the user builds a new one."""
        spec = readback(self.m, self.spec0)
        self.m = build_from(self.spec0)
        self.ref = Ref(self.spec0)

    def _bounds(self, op):
        if op.get("param") == "multi":
            return self._bounds_multi(op)
        p, b, check = op["param"], list(op["bounds"]), op["check"]
        r = self.ref
        if self.poison:
            raise Inapplicable("poisoned")
        if p not in ("var", "len_scale", "nugget", "anis") and p not in r.opt:
            raise Inapplicable("no such parameter")
        if not b[0] < b[1]:
            raise Inapplicable("bounds")
        cur = {"var": r.var, "len_scale": r.len_scale, "nugget": r.nugget,
               "anis": r.anis}.get(p, r.opt.get(p))
        inside = in_bounds(cur, b) if not (p == "anis" and not r.anis) else True
        if not check and not inside:
            raise Inapplicable("check_args=False with value outside would poison the model")
        if p == "anis" and r.latlon and not in_bounds(1.0, b):
            raise Inapplicable("lat-lon ratios are fixed to 1")
        trial = copy.deepcopy(r)
        trial.user_bounds[p] = b
        if check and not inside:
            d = default_from_bounds(b)
            if p == "var":
                trial.var_raw = d / trial.factor()
            elif p == "len_scale":
                trial.len_scale = d
            elif p == "nugget":
                trial.nugget = d
            elif p == "anis":
                trial.anis = [d] * (trial.dim - 1)
                trial._fix_geo()
            else:
                trial.opt[p] = d
        if not self._ref_in_bounds(trial):
            raise Inapplicable("a derived value would leave its bounds")
        try:
            if op.get("via") == "property" and not check and p in (
                    "var", "len_scale", "nugget", "anis"):
                setattr(self.m, p + "_bounds", b)  # the documented bounds properties
                self.ctx.probe("bounds.via_property")
            else:
                self.m.set_arg_bounds(check_args=check, **{p: b})
        except ValueError as e:
            raise Violation("C14.set_arg_bounds_raised", param=p, bounds=b, error=str(e)[:120])
        if check and not inside:
            self.ctx.probe("bounds.value_moved")
        self.ref = trial

    def _boundary(self, op):
        p, side = op["param"], op["side"]
        r = self.ref
        if self.poison:
            raise Inapplicable("poisoned")
        if p not in ("var", "len_scale", "nugget") and p not in r.opt:
            raise Inapplicable("no such parameter")
        b = r.bounds(p) or default_opt_bounds(r.cls, r.dim)[p]
        val = b[0] if side == "lo" else b[1]
        if not np.isfinite(val):
            raise Inapplicable("infinite bound")
        typ = b[2] if len(b) > 2 else "cc"
        closed = typ[0 if side == "lo" else 1] == "c"
        name = p if p in ("var", "len_scale", "nugget") else "opt:" + p
        if p == "len_scale" and val <= 0 or p == "var" and val <= 0 and closed:
            raise Inapplicable("degenerate")
        if r.cls in TPL and p == "var":
            # var = var_raw * factor is a floating point round trip: exactly-at-the-bound can
            # land one ulp outside; the property does not promise acceptance there
            raise Inapplicable("TPL variance round trip at a bound")
        if closed:
            # the assignment may push a derived value (TPL variance) out of *its* bounds
            trial = copy.deepcopy(r)
            self._ref_apply(trial, name, val)
            if not self._ref_in_bounds(trial):
                raise Inapplicable("a derived value would leave its bounds")
        try:
            self._assign(name, val)
            accepted = True
        except ValueError:
            accepted = False
        if closed and not accepted:
            raise Violation("C14.closed_bound_rejected", param=p, value=val, bounds=b)
        if not closed and accepted:
            raise Violation("C14.open_bound_accepted", param=p, value=val, bounds=b)
        self.ctx.probe("boundary.closed_accepted" if closed else "boundary.open_rejected")
        if accepted:
            if p == "var":
                r.var_raw = val / r.factor()
            elif p == "len_scale":
                r.len_scale = float(val)
            elif p == "nugget":
                r.nugget = float(val)
            else:
                r.opt[p] = float(val)
        else:
            self._repair(name)

    def _repair(self, name):
        """Re-assign the reference's (valid) value after a rejected assignment."""
        r = self.ref
        if name in ("var", "var_raw"):
            self.m.var_raw = r.var_raw
        elif name in ("len_scale", "len_scale_list", "integral_scale", "anis"):
            self._repair_len()
        elif name == "nugget":
            self.m.nugget = r.nugget
        elif name == "dim":
            self._repair_dim()
        elif name.startswith("opt:"):
            setattr(self.m, name[4:], r.opt[name[4:]])

    def _rejected(self, op):
        p, bad = op["param"], op["bad"]
        r = self.ref
        if bad is None:
            raise Inapplicable("no bad value")
        if p == "anis" and r.dim == 1:
            raise Inapplicable("1d")
        if p == "dim" and r.latlon:
            raise Inapplicable("latlon dim fixed")
        if p.startswith("opt:") and p[4:] not in r.opt:
            raise Inapplicable("no opt")
        if p == "len_scale_list" and (not isinstance(bad, list) or len(bad) > r.dim
                                      or all(x > 0 for x in bad[: r.dim])):
            raise Inapplicable("list longer than dim / legal after truncation")
        if self._valid_for_ref(p if p != "len_scale_list" else "len_scale", bad):
            raise Inapplicable("value is legal here")
        if p == "anis" and isinstance(bad, list) and len(bad) != r.dim - 1:
            raise Inapplicable("length")
        try:
            self._assign(p, bad)
        except ValueError:
            self.ctx.fired("rejected_set")
        except (ZeroDivisionError, FloatingPointError, OverflowError, TypeError):
            # rejected, although not with the documented ValueError (e.g. hurst < 0 makes the
            # variance factor divide by zero before the bounds are looked at)
            self.ctx.fired("rejected_set")
            self.ctx.probe("rejected_with_other_exception")
        else:
            raise Violation("C14.out_of_bounds_accepted", param=p, value=bad,
                            bounds=r.bounds(p if not p.startswith("opt:") else p[4:]))
        self._repair(p)

    # ------------------------------------------------------------------ invariants
    def check_all(self, after):
        m, r = self.m, self.ref
        ctx = self.ctx
        ctx.observations += 1
        # (i) reference model
        got = readback(m, self.spec0)
        exp = {"dim": r.dim, "var": r.var, "len_scale": r.len_scale, "anis": r.anis,
               "angles": r.angles, "nugget": r.nugget, "rescale": r.rescale}
        for k in ("dim", "var", "len_scale", "anis", "angles", "nugget", "rescale"):
            if not close(got[k], exp[k], rtol=1e-9):
                raise Violation("C14.refmodel." + k, after=after, got=got[k], want=exp[k])
        if not close(m.var_raw, r.var_raw, rtol=1e-9):
            raise Violation("C14.refmodel.var_raw", after=after, got=float(m.var_raw),
                            want=r.var_raw)
        for o in sorted(r.opt):
            if not close(got["opt"].get(o, np.nan), r.opt[o], rtol=1e-9):
                raise Violation("C14.refmodel.opt", after=after, name=o, got=got["opt"].get(o),
                                want=r.opt[o])
        for p, b in sorted(r.user_bounds.items()):
            if list(m.arg_bounds[p]) != list(b):
                raise Violation("C14.refmodel.bounds", after=after, param=p,
                                got=list(m.arg_bounds[p]), want=b)
        ctx.note("state", [got["var"], got["len_scale"], got["nugget"], got["rescale"]],
                 got["anis"], got["angles"], [got["opt"][o] for o in sorted(got["opt"])])
        # (iii) derived quantities
        if not close(m.sill, m.var + m.nugget, rtol=1e-12):
            raise Violation("C14.derived.sill", after=after)
        if len(m.anis) != m.dim - 1 or len(m.angles) != m.dim * (m.dim - 1) // 2:
            raise Violation("C14.derived.counts", after=after, dim=m.dim, n_anis=len(m.anis),
                            n_angles=len(m.angles))
        lsv = np.array([m.len_scale] + [m.len_scale * a for a in m.anis])
        if not close(m.len_scale_vec, lsv, rtol=1e-12):
            raise Violation("C14.derived.len_scale_vec", after=after)
        fd = 2 + int(r.temporal) if r.latlon else m.dim
        sd = 2 if r.latlon else m.dim - int(r.temporal)
        if m.field_dim != fd or m.spatial_dim != sd:
            raise Violation("C14.derived.dims", after=after, field_dim=m.field_dim,
                            spatial_dim=m.spatial_dim)
        if r.latlon and (any(a != 1.0 for a in m.anis[:2]) or any(a != 0 for a in m.angles)):
            raise Violation("C14.latlon_not_isotropic", after=after, anis=got["anis"])
        if r.temporal and not r.latlon:
            keep = (m.dim - 1) * (m.dim - 2) // 2
            if any(a != 0 for a in m.angles[keep:]):
                raise Violation("C14.temporal_rotation", after=after, angles=got["angles"])
        # bounds hold for the stored values (nothing out of bounds was accepted)
        for p, b in sorted(m.arg_bounds.items()):
            val = getattr(m, p)
            if np.size(val) and not in_bounds(val, b):
                raise Violation("C14.value_outside_bounds", after=after, param=p,
                                value=np.asarray(val).tolist(), bounds=list(b))
        # (ii) direct construction from the read-back values
        try:
            direct = build_from(got)
        except ValueError as e:
            raise Violation("C14.unconstructible", after=after, error=str(e)[:140],
                            state={k: got[k] for k in ("cls", "dim", "opt")})
        if r.user_bounds:
            direct.set_arg_bounds(check_args=False, **copy.deepcopy(r.user_bounds))
        if not (direct == m):
            raise Violation("C14.direct_equal.compare", after=after)
        if not close(direct.var_raw, m.var_raw, rtol=1e-9):
            raise Violation("C14.direct_equal.var_raw", after=after)
        db, mb = direct.arg_bounds, m.arg_bounds
        for p in sorted(db):
            if [float(x) if not isinstance(x, str) else x for x in db[p]] != \
                    [float(x) if not isinstance(x, str) else x for x in mb[p]]:
                raise Violation("C14.direct_equal.arg_bounds", after=after, param=p,
                                got=list(mb[p]), fresh=list(db[p]))
        with np.errstate(all="ignore"):
            for fn in ("variogram", "covariance"):
                a, b = getattr(m, fn)(LAGS), getattr(direct, fn)(LAGS)
                if not close(a, b, rtol=1e-9):
                    raise Violation("C14.direct_equal." + fn, after=after, maxdiff=maxdiff(a, b))
            ctx.note("vario", m.variogram(LAGS))
            self.obs += 1
            if after in ("init", "rescale", "integral_scale") or \
                    str(after).startswith("opt:") or self.obs % 7 == 0:
                try:
                    a, b = float(m.integral_scale), float(direct.integral_scale)
                except Exception:
                    a = b = None
                if a is not None and np.isfinite(b) and not close(a, b, rtol=1e-6):
                    raise Violation("C14.direct_equal.integral_scale", after=after, got=a, fresh=b)
                if a is not None and np.isfinite(a) and self.obs % 3 == 0:
                    vec = np.array([a] + [a * x for x in m.anis])
                    if not close(m.integral_scale_vec, vec, rtol=1e-6):
                        raise Violation("C14.derived.integral_scale_vec", after=after)
                ctx.probe("integral_scale_compared")
            if self.obs % 4 == 1 or after in ("dim", "hankel_kw", "rescale") or \
                    str(after).startswith("opt:"):
                ks = np.array([0.05, 0.4, 1.3, 3.0])
                try:
                    a, b = m.spectral_density(ks), direct.spectral_density(ks)
                    a2, b2 = m.spectral_rad_pdf(ks), direct.spectral_rad_pdf(ks)
                except Exception:
                    a = b = a2 = b2 = None
                if a is not None and np.all(np.isfinite(b)) and np.all(np.isfinite(b2)):
                    if not close(a, b, rtol=1e-7) or not close(a2, b2, rtol=1e-7):
                        raise Violation("C14.direct_equal.spectrum", after=after,
                                        maxdiff=maxdiff(a, b))
                    ctx.probe("spectrum_compared")
            pts = self._points(m)
            a, b = m.isometrize(pts), direct.isometrize(pts)
            if not close(a, b, rtol=1e-9):
                raise Violation("C14.direct_equal.isometrize", after=after)
            back = m.anisometrize(a)
            if not close(back, pts, rtol=1e-8):
                raise Violation("C14.iso_roundtrip", after=after, maxdiff=maxdiff(back, pts))
            if not close(back, direct.anisometrize(b), rtol=1e-9):
                raise Violation("C14.direct_equal.anisometrize", after=after)

    def _points(self, m):
        n = m.field_dim
        base = np.array([[0.3, -1.2, 2.5, 0.0, 1.0], [1.1, 0.4, -0.7, 0.0, 2.0],
                         [-0.5, 0.9, 1.3, 0.0, -1.0], [0.2, 0.8, 1.9, 0.0, 3.0]])
        pts = base[:n].copy()
        if m.latlon:
            pts[0] = [10.0, -35.0, 60.0, 0.0, 45.0]
            pts[1] = [20.0, 100.0, -150.0, 0.0, 5.0]
        return pts

    def state_key(self):
        r = self.ref
        return [r.cls, r.latlon, r.temporal, r.dim, round(r.var_raw, 9), r.len_scale, r.anis,
                r.angles, r.nugget, r.opt, r.rescale, sorted(r.user_bounds)]

    def close(self):
        pass


def signature(rec):
    v = rec["violation"]
    d = v["detail"]
    cls = rec["config"]["model"]["cls"]
    extra = d.get("param") or d.get("name") or d.get("after") or ""
    return "%s:%s:%s" % (v["invariant"], extra, "dimdep" if cls in DIMDEP else "any")


def simplify(config, ops):
    m = config["model"]
    for key, val in (("rescale", None), ("nugget", 0.0), ("var", 1.0), ("len_scale", 1.0)):
        if m.get(key) != val:
            c2 = copy.deepcopy(config)
            c2["model"][key] = val
            yield c2, ops
    if any(a != 1.0 for a in m["anis"]):
        c2 = copy.deepcopy(config)
        c2["model"]["anis"] = [1.0] * len(m["anis"])
        yield c2, ops
    if any(a != 0.0 for a in m["angles"]):
        c2 = copy.deepcopy(config)
        c2["model"]["angles"] = [0.0] * len(m["angles"])
        yield c2, ops
    if m["cls"] != "Gaussian" and not m["opt"]:
        c2 = copy.deepcopy(config)
        c2["model"]["cls"] = "Gaussian"
        yield c2, ops
