"""Real OpenMP build of the working tree's generated C (observation only: the OS schedules).

Cython is not installed, so the build starts from the generated summator.c / krigesum.c /
estimator.cpp that sit next to the .pyx files.  Output goes to /verif/build/omp/<hash>/ where
<hash> covers the three generated sources: an edited tree gets a fresh build.
"""
import hashlib
import importlib.machinery
import importlib.util
import os
import subprocess
import sys
import sysconfig

VERIF = os.path.dirname(os.path.dirname(os.path.abspath(__file__)))
SOURCES = {
    "summator": ("gstools/field/summator.c", "gcc"),
    "krigesum": ("gstools/krige/krigesum.c", "gcc"),
    "estimator": ("gstools/variogram/estimator.cpp", "g++"),
}


def build(repo_src):
    import numpy as np
    h = hashlib.sha256()
    for mod, (rel, _) in sorted(SOURCES.items()):
        path = os.path.join(repo_src, rel)
        if not os.path.exists(path):
            return None, "generated source %s missing" % rel
        h.update(open(path, "rb").read())
    out = os.path.join(VERIF, "build", "omp", h.hexdigest()[:16])
    os.makedirs(out, exist_ok=True)
    inc = ["-I" + sysconfig.get_paths()["include"], "-I" + np.get_include()]
    procs = []
    for mod, (rel, cc) in sorted(SOURCES.items()):
        target = os.path.join(out, mod + ".so")
        if os.path.exists(target):
            continue
        cmd = [cc, "-O1", "-fopenmp", "-shared", "-fPIC", "-w",
               "-DNPY_NO_DEPRECATED_API=NPY_1_7_API_VERSION"] + inc + [
                   os.path.join(repo_src, rel), "-o", target + ".tmp"]
        procs.append((mod, target, subprocess.Popen(cmd, stdout=subprocess.PIPE,
                                                    stderr=subprocess.STDOUT)))
    for mod, target, p in procs:
        outp, _ = p.communicate()
        if p.returncode != 0:
            return None, "compiling %s failed: %s" % (mod, outp.decode()[-400:])
        os.replace(target + ".tmp", target)
    return out, None


_MODS = {}


def load(build_dir, mod):
    key = (build_dir, mod)
    if key not in _MODS:
        path = os.path.join(build_dir, mod + ".so")
        loader = importlib.machinery.ExtensionFileLoader(mod, path)
        spec = importlib.util.spec_from_loader(mod, loader, origin=path)
        m = importlib.util.module_from_spec(spec)
        loader.exec_module(m)
        _MODS[key] = m
    return _MODS[key]
