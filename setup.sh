#!/bin/sh
# Offline setup: nothing to install (hypothesis not required); make sure the compiled kernels
# of the working tree are importable and create scratch dirs.
set -e
cd "$(dirname "$0")"
mkdir -p build evidence replays
/venv/bin/python - <<'PY'
import sys
sys.path.insert(0, "/repo/src")
import gstools
from gstools.field import summator
from gstools.krige import krigesum
from gstools.variogram import estimator
print("setup ok: gstools from", gstools.__file__)
PY
