"""Simulator core: seeded runs, recorded op lists, digests, ambient-state guard.

One integer (the run seed) decides everything in a run.  A run is a list of JSON ops
generated lazily from ``random.Random(run_seed)`` and executed immediately against the
system under test; the executed list is the recorded history and *replay is execution of
a recorded list* (the PRNG is never consulted during replay).
"""
import hashlib
import json
import random
import struct
import traceback
import warnings

import numpy as np

MASK = (1 << 64) - 1


def splitmix64(x):
    x = (x + 0x9E3779B97F4A7C15) & MASK
    z = x
    z = ((z ^ (z >> 30)) * 0xBF58476D1CE4E5B9) & MASK
    z = ((z ^ (z >> 27)) * 0x94D049BB133111EB) & MASK
    return z ^ (z >> 31)


def derive_seed(batch_seed, engine_name, index):
    h = splitmix64(batch_seed & MASK)
    for ch in engine_name.encode():
        h = splitmix64(h ^ ch)
    return splitmix64(h ^ (index & MASK)) >> 1  # 63 bit, JSON friendly


class Violation(Exception):
    """The property is broken: invariant id + JSON-serialisable detail."""

    def __init__(self, invariant, **detail):
        super().__init__(invariant)
        self.invariant = invariant
        self.detail = detail


class Inapplicable(Exception):
    """Op cannot be executed in the current state (happens after shrinking): skipped."""


class HarnessError(Exception):
    """The harness itself is wrong/confused: never a VIOLATION."""


def jdump(obj):
    return json.dumps(obj, sort_keys=True, separators=(",", ":"), default=_jdefault)


def _jdefault(o):
    if isinstance(o, np.ndarray):
        return o.tolist()
    if isinstance(o, (np.floating,)):
        return float(o)
    if isinstance(o, (np.integer,)):
        return int(o)
    if isinstance(o, (np.bool_,)):
        return bool(o)
    raise TypeError(type(o))


class Ctx:
    """Per-run recording context: digest, probes, fault counters, state hashes."""

    def __init__(self):
        self._h = hashlib.sha256()
        self.probes = {}
        self.faults_fired = {}
        self.faults_armed = {}
        self.states = set()
        self.steps = 0
        self.observations = 0

    # -- digest (never draws from a PRNG, never reads a clock)
    def note(self, tag, *arrays):
        self._h.update(tag.encode())
        for a in arrays:
            if a is None:
                self._h.update(b"<none>")
                continue
            a = np.ascontiguousarray(np.asarray(a, dtype=np.double))
            self._h.update(struct.pack("<q", a.size))
            self._h.update(a.tobytes())

    def digest(self):
        return self._h.hexdigest()

    def probe(self, name, n=1):
        self.probes[name] = self.probes.get(name, 0) + n

    def fired(self, kind, n=1):
        self.faults_fired[kind] = self.faults_fired.get(kind, 0) + n

    def armed(self, kind, n=1):
        self.faults_armed[kind] = self.faults_armed.get(kind, 0) + n

    def state(self, key):
        self.states.add(hashlib.md5(jdump(key).encode()).hexdigest()[:12])


class Ambient:
    """Save / restore every piece of process-global state a run may touch."""

    def __enter__(self):
        import gstools.config as cfg

        self._cfg = cfg
        self._nt = cfg.NUM_THREADS
        self._core = cfg.USE_GSTOOLS_CORE
        self._err = np.geterr()
        self._rng = np.random.get_state()
        self._wf = warnings.catch_warnings()
        self._wf.__enter__()
        warnings.simplefilter("ignore")
        return self

    def __exit__(self, *exc):
        self._wf.__exit__(*exc)
        np.random.set_state(self._rng)
        np.seterr(**self._err)
        self._cfg.NUM_THREADS = self._nt
        self._cfg.USE_GSTOOLS_CORE = self._core
        return False


def _op_kind(op):
    return op.get("op") or ("fault:" + op.get("fault", "?"))


def execute(engine, config, ops=None, run_seed=None, max_ops=None):
    """Execute one run.

    ops is None  -> generate from random.Random(run_seed) (lazy, state dependent)
    ops is a list -> replay exactly that list (PRNG untouched)
    Returns a JSON-serialisable record.
    """
    ctx = Ctx()
    rec = {
        "engine": engine.NAME,
        "property": engine.PROPERTY,
        "run_seed": run_seed,
        "config": config,
        "ops": [],
        "violation": None,
        "harness_error": None,
    }
    generated = ops is None
    rng = random.Random(run_seed) if generated else None
    if generated and config is None:
        config = engine.gen_config(rng)
        rec["config"] = config
    with Ambient():
        machine = None
        try:
            machine = engine.Machine(config, ctx)
            n = config.get("n_ops", 8) if generated else len(ops)
            if max_ops is not None:
                n = min(n, max_ops)
            for i in range(n):
                machine.force_observe = generated and i == n - 1
                op = machine.gen_op(rng) if generated else ops[i]
                # JSON round trip so generated and replayed ops are the same objects
                op = json.loads(jdump(op))
                rec["ops"].append(op)
                ctx.steps += 1
                try:
                    machine.apply(op)
                    ctx.note("ok:" + jdump(op))
                except Inapplicable as e:
                    op["_skipped"] = str(e)[:80]
                    ctx.note("skip:" + _op_kind(op))
                ctx.state(machine.state_key())
        except Violation as v:
            rec["violation"] = {
                "invariant": v.invariant,
                "detail": json.loads(jdump(v.detail)),
                "at_op": len(rec["ops"]) - 1,
            }
            ctx.note("violation:" + v.invariant)
        except HarnessError as e:
            rec["harness_error"] = "HarnessError: %s" % e
        except Exception:  # anything unexpected is a harness problem, not a verdict
            rec["harness_error"] = traceback.format_exc()[-2500:]
        finally:
            if machine is not None:
                try:
                    machine.close()
                except Exception:
                    pass
    rec["digest"] = ctx.digest()
    rec["stats"] = {
        "steps": ctx.steps,
        "observations": ctx.observations,
        "probes": ctx.probes,
        "faults_fired": ctx.faults_fired,
        "faults_armed": ctx.faults_armed,
        "states": sorted(ctx.states),
        "sig": history_signature(rec["ops"], getattr(engine, "history_sig", None)),
    }
    return rec


def history_signature(ops, custom=None):
    """Abstract history signature: op kinds with bucketed key arguments."""
    parts = []
    for op in ops:
        if op.get("_skipped"):
            continue
        if custom is not None and "fault" not in op:
            parts.append(custom(op))
            continue
        k = _op_kind(op)
        for key in ("param", "layout", "what", "target", "kind", "fn"):
            if key in op:
                k += ":" + str(op[key])
        parts.append(k)
    return "|".join(parts)


def nontrivial(ops, change_kinds, observe_kinds):
    """A history is non-trivial if some state-changing op precedes some observation."""
    seen_change = False
    for op in ops:
        if op.get("_skipped"):
            continue
        k = _op_kind(op)
        if k in change_kinds or k.startswith("fault:"):
            seen_change = True
        elif k in observe_kinds and seen_change:
            return True
    return False


# ---- numeric helpers shared by engines -------------------------------------------------


def close(a, b, rtol=1e-10, atol=None):
    a = np.asarray(a, dtype=np.double)
    b = np.asarray(b, dtype=np.double)
    if a.shape != b.shape:
        return False
    if a.size == 0:
        return True
    fin = np.isfinite(b)
    scale = max(1.0, float(np.max(np.abs(b[fin]))) if fin.any() else 1.0)
    tol = rtol * scale if atol is None else atol
    na, nb = np.isnan(a), np.isnan(b)
    if (na != nb).any():
        return False
    ia, ib = np.isinf(a), np.isinf(b)
    if (ia != ib).any() or (ia & (np.sign(a) != np.sign(b))).any():
        return False
    skip = na | ia
    with np.errstate(invalid="ignore", over="ignore"):
        d = np.abs(np.where(skip, 0.0, a) - np.where(skip, 0.0, b))
    return bool((d <= tol).all())


def maxdiff(a, b):
    a = np.asarray(a, dtype=np.double)
    b = np.asarray(b, dtype=np.double)
    if a.shape != b.shape:
        return "shape %s vs %s" % (a.shape, b.shape)
    if a.size == 0:
        return 0.0
    with np.errstate(invalid="ignore"):
        return float(np.nanmax(np.abs(a - b)))


def distinct_int(v):
    """An int object equal to v but not identical to any cached/other object."""
    w = int(str(v))
    return w
