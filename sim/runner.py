"""Batch runner: fork pool, aggregation, shrinking, replay files, known findings, evidence."""
import faulthandler
import json
import multiprocessing
import os
import subprocess
import sys
import time
from concurrent.futures import ProcessPoolExecutor, as_completed
from concurrent.futures.process import BrokenProcessPool

from . import core

VERIF = os.path.dirname(os.path.dirname(os.path.abspath(__file__)))
KNOWN = os.path.join(VERIF, "KNOWN_FINDINGS.jsonl")
CHUNK = 16
_ENGINE = None  # set in parent before fork


def _worker_chunk(args):
    batch_seed, indices, per_run_timeout = args
    eng = _ENGINE
    out = []
    for i in indices:
        faulthandler.dump_traceback_later(per_run_timeout, exit=True)
        rs = core.derive_seed(batch_seed, eng.NAME, i)
        rec = core.execute(eng, None, None, run_seed=rs)
        faulthandler.cancel_dump_traceback_later()
        st = rec["stats"]
        slim = {
            "i": i,
            "run_seed": rs,
            "digest": rec["digest"],
            "sig": st["sig"],
            "nontrivial": (eng.is_nontrivial(rec["ops"]) if hasattr(eng, "is_nontrivial") else
                           core.nontrivial(rec["ops"], eng.CHANGE_KINDS, eng.OBSERVE_KINDS)),
            "steps": st["steps"],
            "observations": st["observations"],
            "probes": st["probes"],
            "faults_fired": st["faults_fired"],
            "faults_armed": st["faults_armed"],
            "states": st["states"],
            "bad": bool(rec["violation"] or rec["harness_error"]),
        }
        if slim["bad"] or i < 4:
            slim["rec"] = rec
        out.append(slim)
    return out


def load_known(prop):
    res = []
    if os.path.exists(KNOWN):
        for line in open(KNOWN):
            line = line.strip()
            if not line or line.startswith("#"):
                continue
            e = json.loads(line)
            if e.get("property") == prop:
                res.append(e)
    return res


def match_known(known, signature):
    for e in known:
        if e.get("status") == "open" and e.get("signature") == signature:
            return e
    return None


def signature_of(eng, rec):
    v = rec["violation"]
    if hasattr(eng, "signature"):
        return eng.signature(rec)
    return v["invariant"]


# ---- shrinking ----------------------------------------------------------------------------


def _fails_same(eng, config, ops, invariant, budget):
    if budget[0] <= 0:
        return False
    budget[0] -= 1
    ops = [{k: v for k, v in op.items() if k != "_skipped"} for op in ops]
    rec = core.execute(eng, config, ops)
    return bool(rec["violation"] and rec["violation"]["invariant"] == invariant)


def shrink(eng, rec, max_tests=400):
    """ddmin over the op list, then engine-specific simplifications."""
    inv = rec["violation"]["invariant"]
    config = rec["config"]
    ops = [op for op in rec["ops"] if not op.get("_skipped")]
    budget = [max_tests]
    if not _fails_same(eng, config, ops, inv, budget):
        # The run failed in its worker but does not fail again in this process.  With every
        # harness choice derived from the seed, that means the library carries process-global
        # state from one execution to the next (e.g. a mutated module-level default).  Such a
        # failure cannot be minimised in-process; the unshrunk history is written out and must
        # reproduce in a fresh interpreter (checked by the caller).
        out = dict(rec)
        out["shrink_tests"] = 1
        out["original_len"] = len(rec["ops"])
        out["not_shrunk"] = "not reproducible inside a process that already executed it"
        return out
    # only ops up to the failing one matter
    # 1. drop faults first
    nofault = [op for op in ops if "fault" not in op]
    if len(nofault) < len(ops) and _fails_same(eng, config, nofault, inv, budget):
        ops = nofault
    # 2. ddmin
    n = 2
    while len(ops) >= 2 and budget[0] > 0:
        chunk = max(1, len(ops) // n)
        reduced = False
        for start in range(0, len(ops), chunk):
            cand = ops[:start] + ops[start + chunk:]
            if cand and _fails_same(eng, config, cand, inv, budget):
                ops = cand
                n = max(n - 1, 2)
                reduced = True
                break
        if not reduced:
            if chunk == 1:
                break
            n = min(len(ops), n * 2)
    # 3. engine simplifications (config and argument shrinking), to fixpoint
    if hasattr(eng, "simplify"):
        progress = True
        while progress and budget[0] > 0:
            progress = False
            for c2, o2 in eng.simplify(config, ops):
                if _fails_same(eng, c2, o2, inv, budget):
                    config, ops = c2, o2
                    progress = True
                    break
    final = core.execute(eng, config, [dict(o) for o in ops])
    if not final["violation"] or final["violation"]["invariant"] != inv:
        # the library changed process-global state while the shrinker was executing it (see
        # above): give up minimising, hand out the history exactly as the worker recorded it
        final = dict(rec)
        final["not_shrunk"] = "became irreproducible in this process while shrinking"
    final["run_seed"] = rec["run_seed"]
    final["shrink_tests"] = max_tests - budget[0]
    final["original_len"] = len(rec["ops"])
    return final


def write_replay(eng, rec, tag=""):
    d = os.environ.get("VERIF_REPLAY_DIR") or os.path.join(VERIF, "replays")
    os.makedirs(d, exist_ok=True)
    path = os.path.join(d, "%s-%s%s.json" % (eng.PROPERTY, rec["run_seed"], tag))
    out = {
        "property": eng.PROPERTY,
        "engine": eng.NAME,
        "run_seed": rec["run_seed"],
        "config": rec["config"],
        "ops": [{k: v for k, v in op.items() if k != "_skipped"} for op in rec["ops"]],
        "invariant": rec["violation"]["invariant"],
        "detail": rec["violation"]["detail"],
        "digest": rec["digest"],
        "original_len": rec.get("original_len"),
        "shrink_tests": rec.get("shrink_tests"),
    }
    with open(path, "w") as f:
        json.dump(out, f, indent=1, sort_keys=True, default=core._jdefault)
    return path


def replay_file(eng, path):
    """Execute a replay file in this interpreter; returns (reproduced, record)."""
    data = json.load(open(path))
    rec = core.execute(eng, data["config"], data["ops"])
    ok = bool(rec["violation"] and rec["violation"]["invariant"] == data["invariant"])
    # the event digest is expected to match too; it cannot when the library itself carries
    # process-global state from the executions that preceded the recorded one in its worker
    # (the same violation then reproduces with other numbers) - reported, not hidden
    rec["digest_matches"] = data.get("digest") in (None, rec["digest"])
    return ok, rec, data


def verify_replay_fresh(prop, path):
    """Re-execute the replay file in a fresh interpreter; must reproduce exactly."""
    env = dict(os.environ)
    env["PYTHONHASHSEED"] = "3"  # different from the batch: replay must not depend on it
    env["VERIF_NO_REEXEC"] = "1"
    p = subprocess.run(
        [sys.executable, os.path.join(VERIF, "check"), prop, "--replay", path],
        capture_output=True, text=True, env=env, timeout=600,
    )
    return p.returncode == 1 and "REPLAY-REPRODUCED" in p.stdout, p.stdout + p.stderr


# ---- batch --------------------------------------------------------------------------------


def run_batch(eng, tier, batch_seed, n_runs, wall_budget, workers=None, extra=None,
              per_run_timeout=120):
    global _ENGINE
    _ENGINE = eng
    t0 = time.time()
    workers = workers or int(os.environ.get("VERIF_WORKERS", "16"))
    ctxmp = multiprocessing.get_context("fork")
    agg = {
        "evaluations": 0, "steps": 0, "observations": 0, "probes": {}, "faults_fired": {},
        "faults_armed": {}, "sigs": set(), "sigs_nontrivial": set(), "states": set(),
        "bigrams": set(), "digests": {}, "bad": [], "samples": [],
        "first_seed": None, "last_seed": None,
    }
    chunks = [list(range(s, min(s + CHUNK, n_runs))) for s in range(0, n_runs, CHUNK)]
    truncated = False
    broken = None
    with ProcessPoolExecutor(max_workers=workers, mp_context=ctxmp) as ex:
        pending = set()
        it = iter(chunks)
        def submit_some():
            nonlocal truncated
            while len(pending) < workers * 2:
                if time.time() - t0 > wall_budget:
                    truncated = True
                    return
                try:
                    c = next(it)
                except StopIteration:
                    return
                pending.add(ex.submit(_worker_chunk, (batch_seed, c, per_run_timeout)))
        submit_some()
        try:
            while pending:
                done = next(as_completed(pending))
                pending.discard(done)
                for s in done.result():
                    _aggregate(agg, s)
                submit_some()
        except BrokenProcessPool as e:
            broken = "worker died (hang watchdog or crash): %s" % e
    agg["wall_s"] = time.time() - t0
    agg["truncated"] = truncated
    agg["planned_runs"] = n_runs
    agg["broken"] = broken
    return agg


def _aggregate(agg, s):
    agg["evaluations"] += 1
    agg["steps"] += s["steps"]
    agg["observations"] += s["observations"]
    for k in ("probes", "faults_fired", "faults_armed"):
        for name, n in s[k].items():
            agg[k][name] = agg[k].get(name, 0) + n
    agg["sigs"].add(s["sig"])
    agg["digests"][s["i"]] = s["digest"]
    if s["nontrivial"]:
        agg["sigs_nontrivial"].add(s["sig"])
    agg["states"].update(s["states"])
    kinds = [p.split(":")[0] + (":" + p.split(":")[1] if p.startswith("fault:") else "")
             for p in s["sig"].split("|") if p]
    for a, b in zip(kinds, kinds[1:]):
        agg["bigrams"].add(a + ">" + b)
    if s["bad"]:
        agg["bad"].append(s["rec"])
    elif "rec" in s and len(agg["samples"]) < 4:
        r = s["rec"]
        agg["samples"].append({"run_seed": r["run_seed"], "config": r["config"],
                               "ops": r["ops"], "digest": r["digest"]})
    if agg["first_seed"] is None or s["i"] == 0:
        agg["first_seed"] = s["run_seed"] if s["i"] == 0 else agg["first_seed"]
    agg["last_seed"] = s["run_seed"]


def finish(eng, tier, batch_seed, agg, extra_cov=None, assumptions=None, extra_violations=None,
           write_evidence=True):
    """Classify bad runs, shrink, write replays + evidence, print verdict. Returns exit code."""
    prop = eng.PROPERTY
    known = load_known(prop)
    harness = [r for r in agg["bad"] if r["harness_error"]]
    viol = [r for r in agg["bad"] if r["violation"]]
    known_seen = {}
    unknown = {}
    for r in viol:
        sig = signature_of(eng, r)
        e = match_known(known, sig)
        if e is not None:
            known_seen.setdefault(sig, [e, 0])[1] += 1
        else:
            key = r["violation"]["invariant"]
            if key not in unknown or len(r["ops"]) < len(unknown[key]["ops"]):
                unknown[key] = r
    lines = []
    exit_code = 0
    n_reported = 0
    for sig, (e, cnt) in sorted(known_seen.items()):
        print("KNOWN-FINDING: property=%s %s (seen in %d runs; signature %s)" % (
            prop, e.get("what", ""), cnt, sig))
    replay_paths = []
    for inv, r in sorted(unknown.items())[:3]:
        small = shrink(eng, r)
        path = write_replay(eng, small)
        ok, out = verify_replay_fresh(prop, path)
        if not ok:
            print("HARNESS-ERROR property=%s replay of %s did not reproduce in a fresh "
                  "interpreter:\n%s" % (prop, path, out[-1500:]))
            exit_code = max(exit_code, 2)
            continue
        print("VIOLATION property=%s replay=%s invariant=%s ops=%d (from %d) detail=%s" % (
            prop, path, inv, len(small["ops"]), small.get("original_len") or -1,
            core.jdump(small["violation"]["detail"])[:600]))
        replay_paths.append(path)
        n_reported += 1
        exit_code = max(exit_code, 1)
    for v in (extra_violations or []):
        print("VIOLATION property=%s replay=%s invariant=%s detail=%s" % (
            prop, v["replay"], v["invariant"], v.get("detail", "")))
        n_reported += 1
        exit_code = max(exit_code, 1)
    if harness:
        print("HARNESS-ERROR property=%s %d runs raised inside the harness; first (run_seed=%s):\n%s"
              % (prop, len(harness), harness[0]["run_seed"], harness[0]["harness_error"]))
        exit_code = 2 if exit_code == 0 else exit_code
    if agg.get("broken"):
        print("HARNESS-ERROR property=%s %s" % (prop, agg["broken"]))
        exit_code = 2 if exit_code == 0 else exit_code
    wall = agg["wall_s"]
    import hashlib
    bd = hashlib.sha256()
    for i in sorted(agg["digests"]):
        bd.update(("%d:%s;" % (i, agg["digests"][i])).encode())
    batch_digest = bd.hexdigest()
    cov = {
        "batch_digest": batch_digest,
        "evaluations": agg["evaluations"],
        "distinct_nontrivial": len(agg["sigs_nontrivial"]),
        "rule": eng.RULE,
        "samples": agg["samples"][:3],
        "runs_per_hour": int(agg["evaluations"] / max(wall, 1e-9) * 3600),
        "run_seeds": {"batch_seed": batch_seed, "first": agg["first_seed"],
                      "last": agg["last_seed"], "count": agg["evaluations"],
                      "derivation": "splitmix64(batch_seed, engine, index)"},
        "planned_runs": agg["planned_runs"],
        "truncated_by_wall_budget": agg["truncated"],
        "ops_executed": agg["steps"],
        "simulated_steps": agg["steps"],
        "observations_checked": agg["observations"],
        "simulated_time": "n/a - no clock or timer in the anchored code; progress is counted in steps",
        "fault_fired": agg["faults_fired"],
        "fault_armed": agg["faults_armed"],
        "probes": agg["probes"],
        "distinct_histories": len(agg["sigs"]),
        "distinct_states": len(agg["states"]),
        "op_bigrams_covered": len(agg["bigrams"]),
        "components": eng.COMPONENTS,
        "known_findings_seen": {s: c for s, (e, c) in known_seen.items()},
        "violations_by_invariant": {k: 1 for k in unknown},
        "harness_errors": len(harness),
        "replays": replay_paths,
    }
    if extra_cov:
        cov.update(extra_cov)
    ev = {
        "property_id": prop, "tier": tier, "seed": int(batch_seed), "level": "exploration",
        "coverage": cov,
        "assumptions": assumptions or getattr(eng, "ASSUMPTIONS", []),
        "wall_s": round(time.time() - agg.get("t_start", time.time() - wall), 2),
        "violations": n_reported,
    }
    if write_evidence:
        os.makedirs(os.path.join(VERIF, "evidence"), exist_ok=True)
        with open(os.path.join(VERIF, "evidence", prop + ".json"), "w") as f:
            json.dump(ev, f, indent=1, sort_keys=True, default=core._jdefault)
    print("batch_digest=%s" % batch_digest)
    print("%s %s tier=%s seed=%d runs=%d (planned %d%s) distinct_nontrivial=%d states=%d "
          "steps=%d wall=%.1fs faults=%s" % (
              "OK" if exit_code == 0 else "FAIL", prop, tier, batch_seed, agg["evaluations"],
              agg["planned_runs"], ", truncated" if agg["truncated"] else "",
              len(agg["sigs_nontrivial"]), len(agg["states"]), agg["steps"], wall,
              core.jdump(agg["faults_fired"])))
    return exit_code
