#!/venv/bin/python
"""Determinism self-test: the same run seed must give the same event digest

  * twice in one interpreter,
  * in a fresh interpreter under another PYTHONHASHSEED,
  * in a batch at 1 worker and at 16 workers (batch digest over all runs).

usage: selftest/determinism.py [N per engine, default 200] [props...]
"""
import os
import subprocess
import sys

VERIF = os.path.dirname(os.path.dirname(os.path.abspath(__file__)))
PROPS = ["C07", "C10", "C11", "C14", "C15", "C17", "C20"]


def digests(prop, n, hashseed):
    env = dict(os.environ, PYTHONHASHSEED=str(hashseed), VERIF_NO_REEXEC="1",
               OMP_NUM_THREADS="1", OPENBLAS_NUM_THREADS="1", MKL_NUM_THREADS="1")
    out = subprocess.run([os.path.join(VERIF, "check"), prop, "--digests", str(n)],
                         capture_output=True, text=True, env=env, timeout=3600).stdout
    return [l.split() for l in out.splitlines() if l and l[0].isdigit()]


def batch(prop, n, workers):
    env = dict(os.environ, VERIF_WORKERS=str(workers), VERIF_EVIDENCE_DIR="/dev/null")
    out = subprocess.run([os.path.join(VERIF, "check"), prop, "--runs", str(n), "--wall", "3000",
                          "--no-evidence"], capture_output=True, text=True, env=env,
                         timeout=3600).stdout
    for l in out.splitlines():
        if l.startswith("batch_digest="):
            return l.split("=", 1)[1]
    return "missing:" + out[-300:]


def main():
    n = int(sys.argv[1]) if len(sys.argv) > 1 else 200
    props = sys.argv[2:] or PROPS
    bad = 0
    for p in props:
        a = digests(p, n, 0)
        b = digests(p, n, 0)
        c = digests(p, n, 12345)
        same_proc = a == b
        other_hash = a == c
        b1 = batch(p, n, 1)
        b16 = batch(p, n, 16)
        # the batch digest at any worker count equals the one recomputed from single runs
        ok = same_proc and other_hash and b1 == b16 and len(a) == n
        print("%s runs=%d twice_equal=%s other_hashseed_equal=%s workers1==workers16=%s %s" % (
            p, len(a), same_proc, other_hash, b1 == b16, "OK" if ok else "DIVERGED"))
        if not ok:
            bad += 1
            for x, y in zip(a, c):
                if x != y:
                    print("   first divergence:", x, y)
                    break
    return 1 if bad else 0


if __name__ == "__main__":
    sys.exit(main())
